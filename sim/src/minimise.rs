//! Delta-debugging minimiser over the session structure (3.6). Every candidate is executed in a fresh
//! process and kept only if the same class of violation at the same program recurs.

use std::time::{Duration, Instant};

use crate::check::{execute, session_size, Violation};
use crate::spec::*;

fn still_fails(judge: &str, s: &SessionSpec, r: &[SessionSpec], v: &Violation, same_program: bool) -> Option<Violation> {
    let vs = execute(judge, s, r, Duration::from_secs(120)).ok()?;
    vs.into_iter().find(|w| {
        if w.class != v.class {
            return false;
        }
        if v.class == "panic" {
            return w.group_key() == v.group_key();
        }
        !same_program || w.program == v.program
    })
}

pub fn minimise(judge: &str, session: &SessionSpec, reference: &[SessionSpec], v: &Violation, budget: Duration) -> (SessionSpec, Vec<SessionSpec>, Violation) {
    let start = Instant::now();
    let mut best = session.clone();
    let mut best_v = v.clone();
    let reference: Vec<SessionSpec> = reference.to_vec();
    let over = |start: &Instant| start.elapsed() > budget;
    macro_rules! attempt {
        ($cand:expr, $same:expr) => {{
            let cand: SessionSpec = $cand;
            if session_size(&cand) < session_size(&best) || serde_json::to_string(&cand).unwrap().len() < serde_json::to_string(&best).unwrap().len() {
                if let Some(w) = still_fails(judge, &cand, &reference, &best_v, $same) {
                    best = cand;
                    best_v = w;
                    true
                } else {
                    false
                }
            } else {
                false
            }
        }};
    }
    // 1. drop worlds: first a guess (the world named in the violation alone), then ddmin-style chunks
    //    (halves, quarters, ... single worlds)
    if best.worlds.len() > 1 {
        let wid = best_v.at.strip_prefix("world ").and_then(|s| s.split(' ').next()).unwrap_or("").to_string();
        if let Some(w) = best.worlds.iter().find(|w| w.id == wid) {
            let c = SessionSpec { worlds: vec![w.clone()], ..best.clone() };
            let _ = attempt!(c, true);
        }
    }
    let mut chunk = best.worlds.len() / 2;
    while chunk >= 1 && best.worlds.len() > 1 && !over(&start) {
        let mut i = 0;
        let mut progressed = false;
        while i < best.worlds.len() && best.worlds.len() > 1 && !over(&start) {
            let end = (i + chunk).min(best.worlds.len());
            if end - i >= best.worlds.len() {
                break;
            }
            let mut c = best.clone();
            c.worlds.drain(i..end);
            if attempt!(c, true) {
                progressed = true;
            } else {
                i = end;
            }
        }
        if chunk == 1 && !progressed {
            break;
        }
        chunk = if chunk == 1 { if progressed { 1 } else { 0 } } else { chunk / 2 };
        if chunk == 0 {
            break;
        }
    }
    // 2. drop nodes (keep at least one)
    for wi in 0..best.worlds.len() {
        let mut ni = 0;
        while best.worlds[wi].nodes.len() > 1 && ni < best.worlds[wi].nodes.len() && !over(&start) {
            let mut c = best.clone();
            c.worlds[wi].nodes.remove(ni);
            if !attempt!(c, true) {
                ni += 1;
            }
        }
    }
    // 3. drop operations (from the end first)
    for wi in 0..best.worlds.len() {
        for ni in 0..best.worlds[wi].nodes.len() {
            let mut oi = best.worlds[wi].nodes[ni].ops.len();
            while oi > 0 && !over(&start) {
                oi -= 1;
                if best.worlds[wi].nodes[ni].ops.len() <= 1 {
                    break;
                }
                let mut c = best.clone();
                c.worlds[wi].nodes[ni].ops.remove(oi);
                let _ = attempt!(c, true);
            }
        }
    }
    // 4. drop individual faults
    for wi in 0..best.worlds.len() {
        for ni in 0..best.worlds[wi].nodes.len() {
            for oi in 0..best.worlds[wi].nodes[ni].ops.len() {
                loop {
                    if over(&start) {
                        break;
                    }
                    let mut changed = false;
                    if let Op::Run { faults, .. } = &best.worlds[wi].nodes[ni].ops[oi] {
                        let n_at = faults.at.len();
                        let n_sw = faults.sticky_write.len();
                        let n_sr = faults.sticky_read.len();
                        let n_b = faults.burst.len();
                        if n_at + n_sw + n_sr + n_b <= 1 {
                            break;
                        }
                        for k in 0..(n_at + n_sw + n_sr + n_b) {
                            let mut c = best.clone();
                            if let Op::Run { faults, .. } = &mut c.worlds[wi].nodes[ni].ops[oi] {
                                if k < n_at {
                                    faults.at.remove(k);
                                } else if k < n_at + n_sw {
                                    faults.sticky_write.remove(k - n_at);
                                } else if k < n_at + n_sw + n_sr {
                                    faults.sticky_read.remove(k - n_at - n_sw);
                                } else {
                                    faults.burst.remove(k - n_at - n_sw - n_sr);
                                }
                            }
                            // keep the paired skip run in step: same edit on every op of the node with the same plan modulo skip_mode is
                            // not attempted; judges only compare pairs that still exist
                            if attempt!(c, true) {
                                changed = true;
                                break;
                            }
                        }
                    }
                    if !changed {
                        break;
                    }
                }
            }
        }
    }
    // 5. drop file states
    for wi in 0..best.worlds.len() {
        let mut fi = 0;
        while fi < best.worlds[wi].files.len() && !over(&start) {
            let mut c = best.clone();
            c.worlds[wi].files.remove(fi);
            if !attempt!(c, true) {
                fi += 1;
            }
        }
    }
    // 6. shrink events: remove top-level fields, then replace values by null
    for wi in 0..best.worlds.len() {
        for ei in 0..best.worlds[wi].events.len() {
            let keys: Vec<String> = best.worlds[wi].events[ei].value.as_object().map(|o| o.keys().cloned().collect()).unwrap_or_default();
            for k in keys {
                if over(&start) {
                    break;
                }
                let mut c = best.clone();
                if let Some(o) = c.worlds[wi].events[ei].value.as_object_mut() {
                    o.remove(&k);
                }
                let _ = attempt!(c, true);
            }
            if best.worlds[wi].events[ei].metadata.as_ref().is_some_and(|m| m.as_object().is_some_and(|o| !o.is_empty())) && !over(&start) {
                let mut c = best.clone();
                c.worlds[wi].events[ei].metadata = Some(serde_json::json!({}));
                let _ = attempt!(c, true);
            }
        }
    }
    // 7. drop statements (lines) of programs; the violation's program text changes, so match on class only
    for wi in 0..best.worlds.len() {
        for pi in 0..best.worlds[wi].programs.len() {
            let mut li = best.worlds[wi].programs[pi].source.lines().count();
            while li > 0 && !over(&start) {
                li -= 1;
                let lines: Vec<&str> = best.worlds[wi].programs[pi].source.lines().collect();
                if lines.len() <= 1 || li >= lines.len() {
                    continue;
                }
                let mut nl = lines.clone();
                nl.remove(li);
                let mut c = best.clone();
                c.worlds[wi].programs[pi].source = nl.join("\n") + "\n";
                let _ = attempt!(c, false);
            }
        }
    }
    // 8. reduce the schedule: replay the observed switches explicitly, then drop switches
    for wi in 0..best.worlds.len() {
        if best.worlds[wi].nodes.len() < 2 || over(&start) {
            continue;
        }
        // obtain the switches of a failing execution
        if let Ok(res) = crate::driver::run_one(&best, Duration::from_secs(120)) {
            if let Some(w) = res.worlds.get(wi) {
                let mut c = best.clone();
                c.worlds[wi].sched.policy = crate::sched::Policy::Explicit { switches: w.sched.switches.clone() };
                if let Some(vv) = still_fails(judge, &c, &reference, &best_v, false) {
                    best = c;
                    best_v = vv;
                    // drop switches one at a time (from the end)
                    let mut k = match &best.worlds[wi].sched.policy {
                        crate::sched::Policy::Explicit { switches } => switches.len(),
                        _ => 0,
                    };
                    while k > 0 && !over(&start) {
                        k -= 1;
                        let mut c = best.clone();
                        if let crate::sched::Policy::Explicit { switches } = &mut c.worlds[wi].sched.policy {
                            if k < switches.len() {
                                switches.remove(k);
                            }
                        }
                        if let Some(vv) = still_fails(judge, &c, &reference, &best_v, false) {
                            best = c;
                            best_v = vv;
                        }
                    }
                }
            }
        }
    }
    // 9. reset knobs to defaults
    for wi in 0..best.worlds.len() {
        for ni in 0..best.worlds[wi].nodes.len() {
            if over(&start) {
                break;
            }
            let mut c = best.clone();
            let n = &mut c.worlds[wi].nodes[ni];
            n.own_clone = false;
            n.ref_backing = false;
            n.hash_seed = 0;
            if serde_json::to_string(&c).unwrap() != serde_json::to_string(&best).unwrap() {
                if let Some(vv) = still_fails(judge, &c, &reference, &best_v, false) {
                    best = c;
                    best_v = vv;
                }
            }
        }
    }
    (best, reference, best_v)
}
