//! The OS entropy seam (N4). The simulator binary defines `getrandom(2)` itself:
//! std's `RandomState` (and the `getrandom` 0.3/0.4 crates, through dlsym) then
//! receive bytes that are a pure function of a per-thread seed the simulator set.
//!
//! Not owned: raw `SYS_getrandom` syscalls (getrandom 0.2: only the exempt
//! network functions use it) and /dev/urandom readers.

use std::cell::Cell;
use std::sync::atomic::{AtomicU64, Ordering};

use crate::prng::splitmix;

thread_local! {
    // (seed, counter); seed 0 = "not a simulated thread": fall back to the process stream.
    static STREAM: Cell<(u64, u64)> = const { Cell::new((0, 0)) };
}

static PROCESS_SEED: AtomicU64 = AtomicU64::new(0x5EED_5EED_5EED_5EED);
static PROCESS_CTR: AtomicU64 = AtomicU64::new(0);
pub static CALLS: AtomicU64 = AtomicU64::new(0);

/// Seed the entropy stream of the calling thread. Must be called before the
/// thread creates its first `HashMap`.
pub fn seed_thread(seed: u64) {
    STREAM.with(|s| s.set((seed | 1, 0)));
}

pub fn seed_process(seed: u64) {
    PROCESS_SEED.store(seed | 1, Ordering::SeqCst);
}

fn next_word() -> u64 {
    CALLS.fetch_add(1, Ordering::Relaxed);
    STREAM.with(|s| {
        let (seed, ctr) = s.get();
        if seed != 0 {
            s.set((seed, ctr + 1));
            let mut x = seed ^ ctr.wrapping_mul(0xA076_1D64_78BD_642F);
            splitmix(&mut x)
        } else {
            let ctr = PROCESS_CTR.fetch_add(1, Ordering::SeqCst);
            let mut x = PROCESS_SEED.load(Ordering::SeqCst) ^ ctr.wrapping_mul(0xE703_7ED1_A0B4_28DB);
            splitmix(&mut x)
        }
    })
}

/// Interposed libc `getrandom`. Exported dynamically (see .cargo/config.toml).
///
/// # Safety
/// `buf` must be valid for `len` bytes, as for the libc function.
#[unsafe(no_mangle)]
pub unsafe extern "C" fn getrandom(buf: *mut libc::c_void, len: libc::size_t, _flags: libc::c_uint) -> libc::ssize_t {
    let out = unsafe { std::slice::from_raw_parts_mut(buf.cast::<u8>(), len) };
    let mut i = 0;
    while i < len {
        let w = next_word().to_le_bytes();
        let n = (len - i).min(8);
        out[i..i + n].copy_from_slice(&w[..n]);
        i += n;
    }
    len as libc::ssize_t
}
