//! C16 — reported target queries and assignments are complete (DESIGN 4.3). The verdict is the
//! online monitor in SimTarget; this module builds the worlds (control arm + faulted arm, 1-2 nodes).

use crate::batch::{pack, run_and_judge};
use crate::c17::{workload, Case};
use crate::check::*;
use crate::genprog;
use crate::prng::{fnv, Rng};
use crate::sched::Policy;
use crate::spec::*;

/// Random fault plan over a run of roughly `t` operations (never the root probe: the run must get going).
pub fn random_plan(rng: &mut Rng, t: u32) -> FaultPlan {
    let mut plan = FaultPlan::default();
    let t = t.max(2);
    match rng.below(5) {
        0 | 1 => {
            for _ in 0..rng.range(1, 3) {
                plan.at.push(1 + rng.below(t as usize - 1) as u32);
            }
            plan.at.sort_unstable();
            plan.at.dedup();
        }
        2 => plan.sticky_write.push(genprog::PATHS[rng.below(genprog::PATHS.len())].to_string()),
        3 => plan.sticky_read.push(genprog::PATHS[rng.below(genprog::PATHS.len())].to_string()),
        _ => plan.burst.push((1 + rng.below(t as usize - 1) as u32, rng.range(2, 4) as u32)),
    }
    plan
}

/// Worlds of 1-2 nodes; each node runs its case fault-free and then under `faulted` random plans.
pub fn target_worlds(rng: &mut Rng, cases: &[Case], n_worlds: usize, faulted: usize, monitors: &[&str], prefix: &str) -> Vec<WorldSpec> {
    let mut worlds = vec![];
    for j in 0..n_worlds {
        let nn = if rng.chance(0.25) { 2 } else { 1 };
        let mut programs = vec![];
        let mut events = vec![];
        let mut nodes = vec![];
        for n in 0..nn {
            let ci = if nn == 1 { j % cases.len() } else { rng.below(cases.len()) };
            programs.push(cases[ci].program.clone());
            events.push(cases[ci].event.clone());
            let mut ops = vec![Op::Run { prog: n, event: n, fresh_runtime: true, faults: FaultPlan::default(), tag: format!("ctl:{ci}n{n}") }];
            for f in 0..faulted {
                let plan = random_plan(rng, 12);
                ops.push(Op::Clear);
                ops.push(Op::Run { prog: n, event: n, fresh_runtime: rng.chance(0.5), faults: plan, tag: format!("faulted:{ci}n{n}:{f}") });
            }
            nodes.push(NodeSpec { tz: "UTC".into(), hash_seed: rng.next_u64() % 1000, own_clone: rng.chance(0.3), ref_backing: rng.chance(0.5), ops });
        }
        let p = *rng.pick(&[0.02, 0.1, 0.3, 0.7]);
        worlds.push(WorldSpec {
            id: format!("{prefix}-{j}"),
            clock: Some(1_700_000_000),
            coord_hash_seed: rng.next_u64() % 1000,
            programs,
            events,
            nodes,
            sched: SchedSpec { policy: Policy::Random { p }, seed: rng.next_u64(), max_yields: 200_000 },
            files: vec![],
            monitors: monitors.iter().map(|s| s.to_string()).collect(),
            fresh_threads: false,
        });
    }
    worlds
}

pub fn run(ctx: &Ctx) -> ! {
    let mut ev = Evidence::default();
    let mut rep = Reporter::new(ctx);
    let n_gen = if ctx.quick() { 20_000 } else { 150_000 };
    let cases = workload(ctx, n_gen, &mut ev);
    let mut rng = Rng::new(crate::prng::mix(ctx.seed, 0xC16));
    let mut samples = vec![];
    let mut accepted = std::collections::BTreeSet::new();
    let rounds = if ctx.quick() { 1 } else { 6 };
    for round in 0..rounds {
        if ctx.out_of_time() {
            break;
        }
        let n_worlds = cases.len();
        let worlds = target_worlds(&mut rng, &cases, n_worlds, 2, &["c16"], &format!("c16r{round}"));
        let sessions = pack(ctx.seed, worlds, 300);
        let results = run_and_judge(ctx, "c16", &sessions, &mut rep, &mut ev, true);
        for (s, r) in sessions.iter().zip(results.iter()) {
            let Some(r) = r else { continue };
            for (w, wr) in s.worlds.iter().zip(r.worlds.iter()) {
                for o in &wr.obs {
                    if o.kind != "run" || o.outcome.starts_with("NOPROGRAM") {
                        continue;
                    }
                    ev.evaluations += 1;
                    let Some(Op::Run { prog, event, faults, .. }) = w.nodes[o.node].ops.get(o.op) else { continue };
                    accepted.insert(fnv(w.programs[*prog].source.as_bytes()));
                    let checked = o.counters.get("c16_ops_checked").copied().unwrap_or(0);
                    if checked >= 1 {
                        let key = format!("{}|{}", w.programs[*prog].source, serde_json::to_string(&w.events[*event]).unwrap());
                        let fresh = ev.distinct.insert(fnv(key.as_bytes()));
                        if fresh && samples.len() < 3 && (samples.is_empty() || ev.distinct.len() % 211 == 1) {
                            samples.push(serde_json::json!({"program": w.programs[*prog].source, "event": w.events[*event], "fault_plan": faults, "target_ops": o.target_ops, "compile_outcome_head": wr.precompiled.get(*prog).and_then(|x| x.as_ref()).map(|x| x.lines().take(4).collect::<Vec<_>>().join(" | "))}));
                        }
                    }
                }
            }
        }
    }
    ev.samples = samples;
    ev.extra.insert("programs_accepted_distinct".into(), (accepted.len() as u64).into());
    ev.rule = "evaluations = runs executed under the C16 monitor (fault-free control runs and runs under random fault plans, 1-2 nodes, seeded schedules) of programs from corpora B+C and generator G. The monitor checks every target operation after the runtime's own root probe: get/get_mut must be covered (equal, ancestor or descendant, same prefix) by ProgramInfo.target_queries, insert by target_assignments, remove by either list. distinct_nontrivial = distinct (program, event) pairs whose run performed at least one non-probe target operation.".into();
    ev.assumptions = vec![
        "coverage is compared syntactically on OwnedTargetPath segments (the interpreter passes compiled path objects through unchanged)".into(),
        "a deletion (target_remove) is compiled from a query, not an assignment: it may be covered by either list".into(),
        "apart from the fault dimension, reach is that of the generator's small path vocabulary; this is not a program fuzzer".into(),
    ];
    let mut verdict = rep.finish(ctx);
    // a worker that could not run (spawn failure, wall-clock limit, garbled output) is a harness error, not a pass
    verdict.harness_errors += ev.worker_errors as u32;
    ev.write(ctx, "exploration", verdict.violations, &verdict.known_seen);
    exit_with(&verdict)
}
