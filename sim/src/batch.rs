//! Helpers shared by the checks: packing worlds into sessions, running them, feeding judges.

use crate::check::{Ctx, Evidence, Reporter};
use crate::driver;
use crate::judge;
use crate::spec::*;

/// Pack worlds into sessions of `per` worlds.
pub fn pack(seed: u64, worlds: Vec<WorldSpec>, per: usize) -> Vec<SessionSpec> {
    let mut out = vec![];
    let mut cur = vec![];
    for w in worlds {
        cur.push(w);
        if cur.len() >= per {
            out.push(SessionSpec { seed, tz_env: None, layout_salt: 0, worlds: std::mem::take(&mut cur) });
        }
    }
    if !cur.is_empty() {
        out.push(SessionSpec { seed, tz_env: None, layout_salt: 0, worlds: cur });
    }
    out
}

/// Run sessions, judge each with `judge_name` (no reference), record candidates with the single world
/// that shows them (worlds of these checks are self-contained), absorb evidence counters.
/// Returns the results in input order for check-specific accounting.
pub fn run_and_judge(
    ctx: &Ctx,
    judge_name: &str,
    sessions: &[SessionSpec],
    reporter: &mut Reporter,
    ev: &mut Evidence,
    isolate_world: bool,
) -> Vec<Option<SessionResult>> {
    let results = driver::run_all(sessions, ctx.par, ctx.session_timeout, |_, _| {});
    let mut out = vec![];
    for (spec, res) in sessions.iter().zip(results.into_iter()) {
        ev.sessions += 1;
        if let Ok(r) = &res {
            for w in &r.worlds {
                ev.absorb_world(w);
            }
        } else {
            ev.worker_errors += 1;
        }
        match judge::judge(judge_name, spec, &res, &[], &[]) {
            Ok(vs) => {
                for v in vs {
                    // smallest session known to show it: the world named in `at`, alone (if worlds are independent)
                    let mini = if isolate_world {
                        let wid = v.at.strip_prefix("world ").and_then(|s| s.split(' ').next()).unwrap_or("");
                        match spec.worlds.iter().find(|w| w.id == wid) {
                            Some(w) => SessionSpec { worlds: vec![w.clone()], ..spec.clone() },
                            None => spec.clone(),
                        }
                    } else {
                        spec.clone()
                    };
                    reporter.candidate(v, judge_name, mini, vec![]);
                }
            }
            Err(e) => {
                eprintln!("HARNESS: {e}");
                ev.worker_errors += 1;
            }
        }
        out.push(res.ok());
    }
    out
}
