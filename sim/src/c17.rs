//! C17 — target faults are contained (DESIGN 4.2).

use std::collections::BTreeMap;

use crate::batch::{pack, run_and_judge};
use crate::check::*;
use crate::corpus;
use crate::genprog;
use crate::prng::{fnv, Rng};
use crate::sched::Policy;
use crate::spec::*;

pub struct Case {
    pub program: ProgramSpec,
    pub event: EventSpec,
}

pub fn workload(ctx: &Ctx, n_generated: usize, ev: &mut Evidence) -> Vec<Case> {
    let mut cases = vec![];
    for c in corpus::corpus_b().into_iter().chain(corpus::corpus_c()) {
        // hash-order amplifiers exist to provoke C14 divergences; they have no place in an Err==skip comparison
        if c.comparable() && !c.diagnostics && !c.tags.iter().any(|t| t == "hash") {
            cases.push(Case { program: c.program, event: c.event });
        }
    }
    // maintainers' examples (and their parameter variants) with their first literal stored in the event first:
    // every stdlib function gets a typed path where it expects a typed argument (also the C14-exempt ones: the
    // double control run keeps them out of the equality oracle, the panic oracle still applies)
    let mut examples = corpus::corpus_a();
    examples.extend(corpus::corpus_a_param_variants().into_iter().map(|mut c| {
        c.label = format!("A:{}", &c.label[2..]);
        c
    }));
    for c in crate::c14::typed_lifted(&examples) {
        if !c.heavy() {
            cases.push(Case { program: c.program, event: c.event });
        }
    }
    ev.extra.insert("corpus_programs".into(), (cases.len() as u64).into());
    let mut rng = Rng::new(crate::prng::mix(ctx.seed, 0xC17));
    let mut used = [0u32; genprog::N_PRODUCTIONS];
    for i in 0..n_generated {
        let mut sub = rng.derive(i as u64);
        let source = {
            let mut g = genprog::Gen::new(&mut sub);
            let s = g.program();
            for (k, u) in g.used.iter().enumerate() {
                used[k] += u;
            }
            s
        };
        let event = genprog::event(&mut sub);
        cases.push(Case { program: ProgramSpec { source, read_only: vec![], precompile: true, label: format!("G:{}:{i}", ctx.seed) }, event });
        rng.next_u64();
    }
    let usage: BTreeMap<&str, u32> = genprog::PRODUCTION_NAMES.iter().copied().zip(used.iter().copied()).collect();
    ev.extra.insert("generator_production_uses".into(), serde_json::to_value(usage).unwrap());
    cases
}

fn run_op(tag: String, fresh: bool, faults: FaultPlan) -> Op {
    Op::Run { prog: 0, event: 0, fresh_runtime: fresh, faults, tag }
}

fn single_node_world(id: String, case: &Case, ops: Vec<Op>) -> WorldSpec {
    WorldSpec {
        id,
        clock: Some(1_700_000_000),
        coord_hash_seed: 1,
        programs: vec![case.program.clone()],
        events: vec![case.event.clone()],
        nodes: vec![NodeSpec { tz: "UTC".into(), hash_seed: 1, own_clone: false, ref_backing: false, ops }],
        sched: SchedSpec { policy: Policy::Serial, seed: 0, max_yields: 200_000 },
        files: vec![],
        monitors: vec![],
        fresh_threads: false,
    }
}

fn quad(ops: &mut Vec<Op>, case_id: &str, fid: &str, plan: FaultPlan) {
    let skip = FaultPlan { skip_mode: true, ..plan.clone() };
    ops.push(Op::Clear);
    ops.push(run_op(format!("fault:{case_id}:{fid}"), false, plan));
    ops.push(Op::Clear);
    ops.push(run_op(format!("after:{case_id}:{fid}"), false, FaultPlan::default()));
    ops.push(run_op(format!("skip:{case_id}:{fid}"), true, skip));
}

pub fn run(ctx: &Ctx) -> ! {
    let mut ev = Evidence::default();
    let mut rep = Reporter::new(ctx);
    let n_gen = if ctx.quick() { 8_000 } else { 80_000 };
    let cases = workload(ctx, n_gen, &mut ev);

    // phase 1: control arm — which programs are accepted, how many target operations does the fault-free run make
    let p1: Vec<WorldSpec> = cases.iter().enumerate().map(|(i, c)| single_node_world(format!("ctl-{i}"), c, vec![run_op(format!("ctl:{i}"), true, FaultPlan::default())])).collect();
    let sessions = pack(ctx.seed, p1, 200);
    let results = run_and_judge(ctx, "c17", &sessions, &mut rep, &mut ev, true);
    let mut t_ops: Vec<Option<(usize, Obs)>> = vec![None; cases.len()];
    let mut accepted = 0u64;
    for (s, r) in sessions.iter().zip(results.iter()) {
        let Some(r) = r else { continue };
        for (w, wr) in s.worlds.iter().zip(r.worlds.iter()) {
            let i: usize = w.id.strip_prefix("ctl-").unwrap().parse().unwrap();
            if let Some(o) = wr.obs.first() {
                if o.kind == "run" && !o.outcome.starts_with("NOPROGRAM") {
                    accepted += 1;
                    t_ops[i] = Some((o.target_ops.len(), o.clone()));
                }
            }
        }
    }
    ev.extra.insert("programs_accepted".into(), accepted.into());
    ev.extra.insert("programs_total".into(), (cases.len() as u64).into());

    // phase 2: exhaustive single-fault enumeration (every position x Err, plus root probe -> Ok(None))
    let mut worlds = vec![];
    let mut planned = 0u64;
    for (i, c) in cases.iter().enumerate() {
        let Some((t, _)) = &t_ops[i] else { continue };
        let cid = i.to_string();
        // two control runs: if they already disagree the program is not deterministic (C14's business) and the case is not judged
        let mut ops = vec![run_op(format!("ctl:{cid}"), true, FaultPlan::default()), run_op(format!("ctl:{cid}"), true, FaultPlan::default())];
        for k in 0..*t as u32 {
            quad(&mut ops, &cid, &format!("at{k}"), FaultPlan { at: vec![k], ..Default::default() });
            planned += 1;
        }
        quad(&mut ops, &cid, "none0", FaultPlan { none_at: vec![0], ..Default::default() });
        planned += 1;
        worlds.push(single_node_world(format!("enum-{i}"), c, ops));
    }
    let sessions = pack(ctx.seed, worlds, 60);
    let results = run_and_judge(ctx, "c17", &sessions, &mut rep, &mut ev, true);
    let mut samples = vec![];
    let account = |sessions: &[SessionSpec], results: &[Option<SessionResult>], ev: &mut Evidence, samples: &mut Vec<serde_json::Value>| {
        for (s, r) in sessions.iter().zip(results.iter()) {
            let Some(r) = r else { continue };
            for (w, wr) in s.worlds.iter().zip(r.worlds.iter()) {
                for (nix, node) in w.nodes.iter().enumerate() {
                    let mut ctl: BTreeMap<String, &Obs> = BTreeMap::new();
                    for (oix, op) in node.ops.iter().enumerate() {
                        let Op::Run { tag, faults, prog, .. } = op else { continue };
                        let Some(o) = wr.obs.iter().find(|o| o.node == nix && o.op == oix) else { continue };
                        if let Some(c) = tag.strip_prefix("ctl:") {
                            ctl.insert(c.to_string(), o);
                        }
                        if let Some(id) = tag.strip_prefix("fault:") {
                            ev.evaluations += 1;
                            let case = id.split(':').next().unwrap_or("");
                            let fired: u32 = o.fired.values().sum();
                            let changed = ctl.get(case).is_some_and(|c| c.outcome != o.outcome || c.target_ops != o.target_ops);
                            if fired > 0 && changed {
                                let key = format!("{}|{}|{}", w.programs[*prog].source, serde_json::to_string(faults).unwrap(), serde_json::to_string(&w.events[0]).unwrap());
                                let fresh = ev.distinct.insert(fnv(key.as_bytes()));
                                if fresh && samples.len() < 3 && (samples.is_empty() || ev.distinct.len() % 97 == 1) {
                                    samples.push(serde_json::json!({
                                        "program": w.programs[*prog].source, "event": w.events[0], "fault_plan": faults,
                                        "faulted_run": {"outcome": o.outcome, "target_ops": o.target_ops},
                                        "control_run": ctl.get(case).map(|c| serde_json::json!({"outcome": c.outcome, "target_ops": c.target_ops})),
                                    }));
                                }
                            }
                        }
                    }
                }
            }
        }
    };
    account(&sessions, &results, &mut ev, &mut samples);
    let enumerated = ev.evaluations;
    ev.extra.insert("single_fault_cases_planned".into(), planned.into());
    ev.extra.insert("single_fault_cases_executed".into(), enumerated.into());

    // phase 3: sampled multi-fault, sticky and burst plans; 1-2 nodes under random schedules
    let n_multi = if ctx.quick() { 40_000 } else { 600_000 };
    let usable: Vec<usize> = (0..cases.len()).filter(|i| t_ops[*i].as_ref().is_some_and(|(t, _)| *t >= 2)).collect();
    let mut rng = Rng::new(crate::prng::mix(ctx.seed, 0xC17_3));
    let mut made = 0;
    let mut round = 0;
    // the first chunk always runs; later ones only while the budget lasts
    while made < n_multi && (made == 0 || !ctx.out_of_time()) && !usable.is_empty() {
        let chunk = (n_multi - made).min(if ctx.quick() { 10_000 } else { 40_000 });
        let mut worlds = vec![];
        for j in 0..chunk {
            let two = rng.chance(0.3);
            let nn = if two { 2 } else { 1 };
            let mut nodes = vec![];
            let mut programs = vec![];
            let mut events = vec![];
            for n in 0..nn {
                let ci = usable[rng.below(usable.len())];
                let (t, _) = t_ops[ci].as_ref().unwrap();
                let t = *t as u32;
                programs.push(cases[ci].program.clone());
                events.push(cases[ci].event.clone());
                let mut plan = FaultPlan::default();
                match rng.below(6) {
                    0 | 1 => {
                        for _ in 0..rng.range(2, 4) {
                            plan.at.push(1 + rng.below(t.max(2) as usize - 1) as u32);
                        }
                        plan.at.sort_unstable();
                        plan.at.dedup();
                    }
                    2 => plan.sticky_write.push(genprog::PATHS[rng.below(genprog::PATHS.len())].to_string()),
                    3 => plan.sticky_read.push(genprog::PATHS[rng.below(genprog::PATHS.len())].to_string()),
                    4 => plan.burst.push((rng.below(t as usize) as u32, rng.range(2, 5) as u32)),
                    _ => {
                        plan.sticky_write.push(genprog::PATHS[rng.below(genprog::PATHS.len())].to_string());
                        plan.at.push(1 + rng.below(t.max(2) as usize - 1) as u32);
                    }
                }
                let cid = format!("{ci}n{n}");
                let mut ops = vec![
                    Op::Run { prog: n, event: n, fresh_runtime: true, faults: FaultPlan::default(), tag: format!("ctl:{cid}") },
                    Op::Run { prog: n, event: n, fresh_runtime: true, faults: FaultPlan::default(), tag: format!("ctl:{cid}") },
                ];
                let skip = FaultPlan { skip_mode: true, ..plan.clone() };
                ops.push(Op::Clear);
                ops.push(Op::Run { prog: n, event: n, fresh_runtime: false, faults: plan, tag: format!("fault:{cid}:m") });
                ops.push(Op::Clear);
                ops.push(Op::Run { prog: n, event: n, fresh_runtime: false, faults: FaultPlan::default(), tag: format!("after:{cid}:m") });
                ops.push(Op::Run { prog: n, event: n, fresh_runtime: true, faults: skip, tag: format!("skip:{cid}:m") });
                nodes.push(NodeSpec { tz: "UTC".into(), hash_seed: rng.next_u64() % 1000, own_clone: rng.chance(0.3), ref_backing: rng.chance(0.5), ops });
            }
            let p = *rng.pick(&[0.02, 0.1, 0.3, 0.7]);
            worlds.push(WorldSpec {
                id: format!("multi-{round}-{j}"),
                clock: Some(1_700_000_000),
                coord_hash_seed: rng.next_u64() % 1000,
                programs,
                events,
                nodes,
                sched: SchedSpec { policy: Policy::Random { p }, seed: rng.next_u64(), max_yields: 200_000 },
                files: vec![],
                monitors: vec![],
                fresh_threads: false,
            });
        }
        made += chunk;
        round += 1;
        let sessions = pack(ctx.seed, worlds, 250);
        let results = run_and_judge(ctx, "c17", &sessions, &mut rep, &mut ev, true);
        account(&sessions, &results, &mut ev, &mut samples);
    }
    ev.extra.insert("multi_fault_cases_executed".into(), (ev.evaluations - enumerated).into());
    ev.samples = samples;
    ev.exhaustive = Some(planned == enumerated);
    ev.rule = "evaluations = faulted runs executed (each paired with a skip-reference run, a control run and a run after clear()). Enumeration: for every accepted program of corpora B+C and of generator G, every target-operation position of its fault-free run fails once with Err, plus the root probe answering Ok(None) (exhaustive: true refers to this single-transient-fault space over this program set); then sampled multi-fault / sticky-path / burst plans on 1-2 nodes under seeded schedules. distinct_nontrivial = distinct (program, event, fault plan) triples whose fault fired and changed the outcome or the operation sequence relative to the fault-free control run.".into();
    ev.assumptions = vec![
        "a rejected operation is modelled as Err(String) returned without touching the underlying TargetValue; the reference arm returns Ok(None)/Ok(()) at the same position".into(),
        "variables are not observable through Runtime; generated programs store their variables into the event at the end".into(),
        "the message of the error produced by a faulted root probe is not compared (runtime words Err and None differently)".into(),
    ];
    let mut verdict = rep.finish(ctx);
    // a worker that could not run (spawn failure, wall-clock limit, garbled output) is a harness error, not a pass
    verdict.harness_errors += ev.worker_errors as u32;
    ev.write(ctx, "fault_enumeration", verdict.violations, &verdict.known_seen);
    exit_with(&verdict)
}
