//! C36 — results are independent of the configured timezone where they should be (DESIGN 4.5).
//! Knob: each node of a world gets its own `TimeZone` (incl. `Local` under a simulated TZ variable) and all
//! nodes run the same (program, event); outcomes of zone-explicit programs must be identical across nodes.

use std::collections::BTreeMap;

use crate::check::*;
use crate::corpus;
use crate::driver::WorkerError;
use crate::judge::prog_desc;
use crate::prng::{fnv, mix, Rng};
use crate::sched::Policy;
use crate::spec::*;

type Res = Result<SessionResult, WorkerError>;

pub const ZONES: &[&str] = &[
    "UTC", "Etc/GMT+12", "Etc/GMT-14", "Asia/Kolkata", "Asia/Kathmandu", "America/New_York", "Europe/Berlin",
    "Australia/Lord_Howe", "America/Sao_Paulo", "Pacific/Apia", "America/St_Johns", "Pacific/Chatham", "Europe/Dublin",
    "Africa/Casablanca", "Asia/Pyongyang", "Antarctica/Troll",
];

/// Functions that are allowed to interpret zone-less wall-clock text with the configured timezone.
pub const ALLOWED: &[&str] = &[
    "parse_timestamp", "parse_syslog", "parse_linux_authorization", "parse_apache_log", "parse_common_log",
    "parse_nginx_log", "get_timezone_name",
];

/// pinned instants (unix seconds): mid-year, new year's eve, DST changeover days, leap day
pub const CLOCKS: &[i64] = &[
    1_700_000_000, 1_703_980_799, 1_704_067_201, 1_615_705_199, 1_636_263_000, 1_709_164_800, 1_616_895_000,
    // 1 Jan 2024 11:30 UTC (already 2 Jan in +14), 28 Feb 2023 23:30, 31 Jan 2025 00:10, 1 Mar 2024 00:30
    1_704_108_600, 1_677_627_000, 1_738_282_200, 1_709_253_000,
];

fn ref_key(w: &WorldSpec, prog: usize, event: usize) -> String {
    format!("{}|{}|{:?}", w.programs[prog].source, serde_json::to_string(&w.events[event]).unwrap(), w.clock)
}

/// `reference`: sessions that ran the same (program, event, clock) under UTC with no TZ variable at all. Judged
/// programs must give the same outcome there as under any configured zone AND any TZ environment (an explicit-zone
/// operation must not start to depend on the process environment either).
pub fn judge(session: &SessionSpec, res: &Res, reference: &[SessionSpec], ref_res: &[Res]) -> Result<Vec<Violation>, String> {
    let res = match res {
        Ok(r) => r,
        Err(e) => return Err(format!("worker failed: {e}")),
    };
    let mut table: BTreeMap<String, String> = BTreeMap::new();
    for (rs, rr) in reference.iter().zip(ref_res.iter()) {
        let Ok(rr) = rr else { continue };
        for (w, wr) in rs.worlds.iter().zip(rr.worlds.iter()) {
            for o in &wr.obs {
                let Some(node) = w.nodes.get(o.node) else { continue };
                if let Some(Op::Run { prog, event, tag, .. }) = node.ops.get(o.op) {
                    if tag == "tz:judged" && o.kind == "run" {
                        table.entry(ref_key(w, *prog, *event)).or_insert_with(|| o.outcome.clone());
                    }
                }
            }
        }
    }
    let mut out = vec![];
    for (w, wr) in session.worlds.iter().zip(res.worlds.iter()) {
        // control: nodes 0 and 1 run under the same zone; if they already disagree the program is not
        // deterministic in the first place (a C14 matter) and nothing is said about timezones
        let same_zone_control = w.nodes.len() >= 2 && w.nodes[0].tz == w.nodes[1].tz;
        let mut unstable: std::collections::BTreeSet<(usize, usize)> = Default::default();
        if same_zone_control {
            for o in wr.obs.iter().filter(|o| o.node == 0) {
                if let Some(p) = wr.obs.iter().find(|p| p.node == 1 && p.op == o.op) {
                    if p.outcome != o.outcome {
                        if let Some(Op::Run { prog, event, .. }) = w.nodes[0].ops.get(o.op) {
                            unstable.insert((*prog, *event));
                        }
                    }
                }
            }
        }
        // (prog, event) -> first judged observation
        let mut first: BTreeMap<(usize, usize), (&Obs, &str)> = BTreeMap::new();
        for o in &wr.obs {
            let Some(node) = w.nodes.get(o.node) else { continue };
            let Some(Op::Run { prog, event, tag, .. }) = node.ops.get(o.op) else { continue };
            if (tag != "tz:judged" && tag != "tz:judged-env") || o.kind != "run" || unstable.contains(&(*prog, *event)) {
                continue;
            }
            // programs with an explicit `timezone: "local"` legitimately follow the TZ variable: they are compared across
            // the configured zones of one session only, not with the TZ-less reference
            if let Some(expected) = table.get(&ref_key(w, *prog, *event)).filter(|_| tag == "tz:judged") {
                if *expected != o.outcome {
                    out.push(Violation {
                        property: "C36".into(),
                        class: "timezone-dependent-result".into(),
                        at: format!("world {} node {} op {} (tz {}, TZ env {:?}, clock {:?})", w.id, o.node, o.op, node.tz, session.tz_env, w.clock),
                        program: prog_desc(w, *prog),
                        observed: o.outcome.clone(),
                        expected: expected.clone(),
                        note: format!("expected = the same run under configured UTC in a process without a TZ variable; event {}", serde_json::to_string(&w.events[*event]).unwrap()),
                    });
                    continue;
                }
            }
            match first.get(&(*prog, *event)) {
                None => {
                    first.insert((*prog, *event), (o, node.tz.as_str()));
                }
                Some((f, ftz)) => {
                    if f.outcome != o.outcome {
                        out.push(Violation {
                            property: "C36".into(),
                            class: "timezone-dependent-result".into(),
                            at: format!("world {} node {} op {} (tz {}, TZ env {:?}, clock {:?})", w.id, o.node, o.op, node.tz, session.tz_env, w.clock),
                            program: prog_desc(w, *prog),
                            observed: o.outcome.clone(),
                            expected: f.outcome.clone(),
                            note: format!("expected = the same run under tz {ftz}; event {}", serde_json::to_string(&w.events[*event]).unwrap()),
                        });
                    }
                }
            }
        }
    }
    Ok(out)
}

pub fn run(ctx: &Ctx) -> ! {
    let mut ev = Evidence::default();
    let mut rep = Reporter::new(ctx);
    let mut cases = corpus::corpus_a();
    cases.extend(corpus::corpus_a_param_variants());
    cases.extend(corpus::corpus_b());
    cases.extend(corpus::corpus_c());
    // class (a): zone-explicit by construction = does not call an allowed function; class (b): hand-written probes
    let mut judged = vec![];
    let mut probes = vec![];
    let mut excluded = 0u64;
    for c in cases {
        if !c.comparable() || c.diagnostics {
            continue;
        }
        let explicit = c.tags.iter().any(|t| t == "tz-explicit" || t == "tz-local-arg");
        let zoneless = c.tags.iter().any(|t| t == "tz-zoneless");
        let calls_allowed = ALLOWED.iter().any(|f| c.program.source.contains(f));
        if explicit || (!zoneless && !calls_allowed) {
            judged.push(c);
        } else {
            if !zoneless {
                excluded += 1;
            }
            probes.push(c);
        }
    }
    ev.extra.insert("programs_judged".into(), (judged.len() as u64).into());
    ev.extra.insert("programs_calling_allowed_zone_consumers_not_judged".into(), excluded.into());
    ev.extra.insert("zoneless_probes".into(), ((probes.len() as u64) - excluded).into());

    let mut rng = Rng::new(mix(ctx.seed, 0xC36));
    let rounds = if ctx.quick() { 8 } else { 60 };
    let mut tz_changed = 0u64;
    let mut samples = vec![];
    for round in 0..rounds {
        if ctx.out_of_time() {
            break;
        }
        // one session per TZ-environment value; worlds inside share it
        let mut sessions = vec![];
        let n_sessions = 16;
        let all: Vec<(&corpus::Case, bool)> = judged.iter().map(|c| (c, true)).chain(probes.iter().map(|c| (c, false))).collect();
        let per = all.len().div_ceil(n_sessions);
        for (si, chunk) in all.chunks(per).enumerate() {
            let tz_env = ZONES[rng.below(ZONES.len())].to_string();
            let mut worlds = vec![];
            for (ci, (c, is_judged)) in chunk.iter().enumerate() {
                // hand-written probes run under every zone of the list (+ Local): a dependence that only shows for the
                // one zone whose offset matches the data must not be left to chance
                let is_probe = c.tags.iter().any(|t| t.starts_with("tz-"));
                let n_nodes = if is_probe { ZONES.len() + 1 } else { rng.range(2, if ctx.quick() { 4 } else { 6 }) };
                let mut zones: Vec<String> = if is_probe { ZONES.iter().map(|z| z.to_string()).chain(std::iter::once("Local".to_string())).collect() } else { vec![] };
                while zones.len() < n_nodes {
                    let z = if rng.chance(0.25) { "Local".to_string() } else { ZONES[rng.below(ZONES.len())].to_string() };
                    if !zones.contains(&z) {
                        zones.push(z);
                    }
                }
                // same-zone control pair in front (see judge)
                zones.insert(0, zones[0].clone());
                let events: Vec<EventSpec> = std::iter::once(c.event.clone()).chain(c.extra_events.iter().cloned()).collect();
                let nodes = zones
                    .iter()
                    .map(|z| NodeSpec {
                        tz: z.clone(),
                        hash_seed: 1,
                        own_clone: false,
                        ref_backing: false,
                        ops: (0..events.len())
                            .map(|e| Op::Run {
                                prog: 0,
                                event: e,
                                fresh_runtime: true,
                                faults: FaultPlan::default(),
                                tag: if !*is_judged {
                                    "tz:probe".into()
                                } else if c.program.source.contains("\"local\"") || c.tags.iter().any(|t| t == "tz-local-arg") {
                                    "tz:judged-env".into()
                                } else {
                                    "tz:judged".into()
                                },
                            })
                            .collect(),
                    })
                    .collect();
                worlds.push(WorldSpec {
                    id: format!("tz{round}s{si}w{ci}"),
                    clock: Some(CLOCKS[(ci + si * 7 + round) % CLOCKS.len()]),
                    coord_hash_seed: 1,
                    programs: vec![c.program.clone()],
                    events,
                    nodes,
                    sched: SchedSpec { policy: Policy::Random { p: 0.1 }, seed: rng.next_u64(), max_yields: 100_000 },
                    files: vec![],
                    monitors: vec![],
                    // fresh threads with equal hash seeds: all nodes see the same hash iteration orders
                    fresh_threads: true,
                });
            }
            sessions.push(SessionSpec { seed: ctx.seed, tz_env: Some(tz_env), layout_salt: 0, worlds });
        }
        // reference arm: the same worlds with a single UTC node and no TZ variable
        let references: Vec<SessionSpec> = sessions
            .iter()
            .map(|s| SessionSpec {
                seed: s.seed,
                tz_env: None,
                layout_salt: 0,
                worlds: s
                    .worlds
                    .iter()
                    .map(|w| {
                        let mut r = w.clone();
                        r.id = format!("{}ref", w.id);
                        r.nodes.truncate(1);
                        r.nodes[0].tz = "UTC".into();
                        r.fresh_threads = true; // same hash seeds as the nodes it is compared with
                        r
                    })
                    .collect(),
            })
            .collect();
        let ref_results = crate::driver::run_all(&references, ctx.par, ctx.session_timeout, |_, _| {});
        let run_results = crate::driver::run_all(&sessions, ctx.par, ctx.session_timeout, |_, _| {});
        let mut results: Vec<Option<SessionResult>> = vec![];
        for ((spec, res), (rspec, rres)) in sessions.iter().zip(run_results.into_iter()).zip(references.iter().zip(ref_results.into_iter())) {
            ev.sessions += 2;
            if let Ok(r) = &res {
                for w in &r.worlds {
                    ev.absorb_world(w);
                }
            } else {
                ev.worker_errors += 1;
            }
            match judge(spec, &res, std::slice::from_ref(rspec), std::slice::from_ref(&rres)) {
                Ok(vs) => {
                    for v in vs {
                        let wid = v.at.strip_prefix("world ").and_then(|s| s.split(' ').next()).unwrap_or("").to_string();
                        let pick = |s: &SessionSpec, id: &str| -> SessionSpec {
                            match s.worlds.iter().find(|w| w.id == id) {
                                Some(w) => SessionSpec { worlds: vec![w.clone()], ..s.clone() },
                                None => s.clone(),
                            }
                        };
                        rep.candidate(v, "c36", pick(spec, &wid), vec![pick(rspec, &format!("{wid}ref"))]);
                    }
                }
                Err(e) => {
                    eprintln!("HARNESS: {e}");
                    ev.worker_errors += 1;
                }
            }
            results.push(res.ok());
        }
        for (s, r) in sessions.iter().zip(results.iter()) {
            let Some(r) = r else { continue };
            for (w, wr) in s.worlds.iter().zip(r.worlds.iter()) {
                ev.evaluations += 1;
                let is_judged = matches!(w.nodes[0].ops.first(), Some(Op::Run { tag, .. }) if tag.starts_with("tz:judged"));
                let outcomes: std::collections::BTreeSet<&str> = wr.obs.iter().filter(|o| o.kind == "run" && o.op == 0).map(|o| o.outcome.as_str()).collect();
                if !is_judged && outcomes.len() > 1 {
                    tz_changed += 1;
                }
                if wr.obs.iter().filter(|o| o.node == 0).any(|o| wr.obs.iter().any(|p| p.node == 1 && p.op == o.op && p.outcome != o.outcome)) {
                    *ev.probes.entry("worlds_unstable_under_equal_zones_not_judged".into()).or_insert(0) += 1;
                }
                let src = &w.programs[0].source;
                let timeish = ["timestamp", "t'", "time", "date", "syslog", "_log", "now"].iter().any(|k| src.contains(k));
                if is_judged && timeish && !wr.obs.iter().any(|o| o.outcome.starts_with("NOPROGRAM")) {
                    let mut zs: Vec<&str> = w.nodes.iter().map(|n| n.tz.as_str()).collect();
                    zs.sort_unstable();
                    let key = format!("{src}|{zs:?}|{:?}", s.tz_env);
                    let fresh = ev.distinct.insert(fnv(key.as_bytes()));
                    if fresh && samples.len() < 3 && (samples.is_empty() || ev.distinct.len() % 37 == 1) {
                        samples.push(serde_json::json!({"program": src, "zones": zs, "TZ_env": s.tz_env, "clock": w.clock, "outcome_under_all_zones": wr.obs.first().map(|o| o.outcome.clone())}));
                    }
                }
            }
        }
    }
    ev.probes.insert("tz_changed_result".into(), tz_changed);
    ev.samples = samples;
    ev.rule = "evaluations = worlds; in each world 2-6 nodes run the same (program, event) under different configured timezones (UTC, fixed offsets, DST zones, Local with a simulated TZ environment variable per session), pinned clock drawn from an edge list. Judged: every corpus program that does not call a function allowed to interpret zone-less wall-clock text (parse_timestamp, parse_syslog, parse_linux_authorization, parse_apache_log, parse_common_log, parse_nginx_log, get_timezone_name, format_timestamp with \"local\") or a C14-exempt function, plus hand-written probes of exactly those functions where the zone is explicit in the data or the call. Outcomes must be identical across nodes. Zone-less probes are run but not judged; they feed the sanity probe tz_changed_result (> 0 shows the knob reaches the code). distinct_nontrivial = distinct (program, zone set, TZ env) triples of judged programs whose source deals with time (mentions timestamp/time/date/log parsing).".into();
    ev.assumptions = vec![
        "the rule is behavioural: a new, undeclared consumer of the configured timezone shows up as a differing outcome in a program outside the allowed set".into(),
        "%Z carries no offset and %s no zone in chrono: such probes are run but only counted".into(),
    ];
    let mut verdict = rep.finish(ctx);
    verdict.harness_errors += ev.worker_errors as u32;
    if tz_changed == 0 {
        eprintln!("HARNESS: sanity probe tz_changed_result is 0: the timezone knob does not reach the code");
        verdict.harness_errors += 1;
    }
    ev.write(ctx, "exploration", verdict.violations, &verdict.known_seen);
    exit_with(&verdict)
}
