//! C15 — read-only paths are never modified (DESIGN 4.4). Knob: the read-only set the program is compiled
//! under. Verdict: the online monitor in SimTarget (around every applied mutation) and a before/after snapshot.

use crate::batch::{pack, run_and_judge};
use crate::c16::target_worlds;
use crate::c17::Case;
use crate::check::*;
use crate::corpus;
use crate::genprog;
use crate::prng::{fnv, Rng};
use crate::spec::*;

pub fn run(ctx: &Ctx) -> ! {
    let mut ev = Evidence::default();
    let mut rep = Reporter::new(ctx);
    let n_gen = if ctx.quick() { 40_000 } else { 400_000 };
    let mut cases = vec![];
    for c in corpus::corpus_b().into_iter().chain(corpus::corpus_c()) {
        if c.comparable() && !c.diagnostics && !c.program.read_only.is_empty() {
            cases.push(Case { program: c.program, event: c.event });
        }
    }
    ev.extra.insert("corpus_programs_with_read_only_annotations".into(), (cases.len() as u64).into());
    let mut rng = Rng::new(crate::prng::mix(ctx.seed, 0xC15));
    for i in 0..n_gen {
        let mut sub = rng.derive(i as u64);
        let source = genprog::Gen::new(&mut sub).program();
        let event = genprog::event(&mut sub);
        let read_only = genprog::read_only_set(&mut sub);
        cases.push(Case { program: ProgramSpec { source, read_only, precompile: true, label: format!("G:{}:{i}", ctx.seed) }, event });
        rng.next_u64();
    }
    let mut samples = vec![];
    let mut rejected = 0u64;
    let mut accepted_runs = 0u64;
    let worlds = target_worlds(&mut rng, &cases, cases.len(), 2, &["c15"], "c15");
    let sessions = pack(ctx.seed, worlds, 300);
    let results = run_and_judge(ctx, "c15", &sessions, &mut rep, &mut ev, true);
    let mut fault_free = 0u64;
    let mut faulted = 0u64;
    for (s, r) in sessions.iter().zip(results.iter()) {
        let Some(r) = r else { continue };
        for (w, wr) in s.worlds.iter().zip(r.worlds.iter()) {
            for o in &wr.obs {
                if o.kind != "run" {
                    continue;
                }
                if o.outcome.starts_with("NOPROGRAM") {
                    rejected += 1;
                    continue;
                }
                accepted_runs += 1;
                ev.evaluations += 1;
                let Some(Op::Run { prog, event, faults, .. }) = w.nodes[o.node].ops.get(o.op) else { continue };
                if faults.is_empty() { fault_free += 1 } else { faulted += 1 }
                let checked = o.counters.get("c15_mutations_checked").copied().unwrap_or(0);
                if checked >= 1 {
                    let key = format!("{}|{:?}", w.programs[*prog].source, w.programs[*prog].read_only);
                    let fresh = ev.distinct.insert(fnv(key.as_bytes()));
                    if fresh && samples.len() < 3 && (samples.is_empty() || ev.distinct.len() % 307 == 1) {
                        samples.push(serde_json::json!({"program": w.programs[*prog].source, "read_only": w.programs[*prog].read_only, "event": w.events[*event], "fault_plan": faults, "target_ops": o.target_ops}));
                    }
                }
            }
        }
    }
    ev.samples = samples;
    ev.extra.insert("runs_of_programs_rejected_by_compiler".into(), rejected.into());
    ev.extra.insert("runs_of_accepted_programs".into(), accepted_runs.into());
    ev.extra.insert("arms".into(), serde_json::json!({"fault_free_runs": fault_free, "faulted_runs": faulted}));
    ev.rule = "Each case = generated (or annotated corpus) program + read-only set of 1-3 entries (path itself, sibling, sibling index, parent, child, metadata twin; recursive or not) + generated event. Programs the compiler rejects under the set are counted and dropped. evaluations = runs of accepted programs (fault-free and under random target-fault plans, 1-2 nodes). Around every applied insert/remove the monitor checks: recursive entry => value at the path deeply unchanged; non-recursive entry => a value that existed still exists, and the operation did not write to the path itself or an ancestor (negative indices resolved against the array at that moment, removals shifting later elements); plus a before/after snapshot of the whole run. distinct_nontrivial = distinct (program, read-only set) pairs accepted by the compiler whose run performed at least one mutation.".into();
    ev.assumptions = vec![
        "non-recursive semantics as pinned by lib/tests/tests/expressions/assignment/read_only_nested.vrl: writes below a non-recursive read-only path are allowed and not judged".into(),
        "reach is that of the generator's small path vocabulary; this is not a program fuzzer".into(),
    ];
    let mut verdict = rep.finish(ctx);
    // a worker that could not run (spawn failure, wall-clock limit, garbled output) is a harness error, not a pass
    verdict.harness_errors += ev.worker_errors as u32;
    ev.write(ctx, "exploration", verdict.violations, &verdict.known_seen);
    exit_with(&verdict)
}
