//! Generator G (Appendix A): target-operation programs and events over a small path vocabulary.
//! Its job is to put target operations into every syntactic position the interpreter has,
//! not to explore the language. Pure function of the PRNG stream.

use serde_json::json;

use crate::prng::Rng;
use crate::spec::EventSpec;

pub const PATHS: &[&str] = &[
    ".a", ".b", ".a.b", ".a.c", ".arr", ".arr[0]", ".arr[1]", ".arr[-1]", ".arr[-3]", ".\"k k\"", ".o.p.q", ".", "%m", "%m.n",
    "%arr[0]", ".arr[2].x", "%", ".\"a.b\"", ".o.p.q.r.s", ".arr[1].n[0]", "%m.\"x y\".z", ".ab", ".a_b", ".a.\"0\"", "%a",
];

const LITS: &[&str] = &["1", "\"s\"", "true", "null", "[1, 2]", "{\"b\": 1}", "{\"b\": {\"c\": 2}}", "[]", "{}", "2.5"];

pub const N_PRODUCTIONS: usize = 36;
pub const PRODUCTION_NAMES: [&str; N_PRODUCTIONS] = [
    "assign_path", "assign_var", "merge_assign", "infallible_path_var", "infallible_var_path", "del", "del_compact",
    "if_exists", "if_eq", "for_each_object", "for_each_array", "map_values", "filter", "unnest", "replace_root",
    "merge_root", "abort", "return", "exists_stmt", "assign_index_deep", "chained_assign", "infallible_path_path", "root_functions", "if_then_abort", "if_then_return", "if_chain", "abort_with_message", "variable_path_then_root", "nested_closure", "closure_return", "root_ops", "typed_path_in_typed_position", "typed_path_closure_tail", "if_multi_predicate", "closure_abort", "variable_path_edit",
];

pub struct Gen<'a> {
    pub rng: &'a mut Rng,
    /// swarm: per-world production weights (0 = disabled)
    pub weights: [u32; N_PRODUCTIONS],
    defined: Vec<&'static str>,
    pub used: [u32; N_PRODUCTIONS],
}

impl<'a> Gen<'a> {
    pub fn new(rng: &'a mut Rng) -> Self {
        let base: [u32; N_PRODUCTIONS] = [10, 5, 4, 4, 4, 6, 4, 5, 4, 4, 4, 3, 3, 4, 3, 3, 1, 1, 2, 3, 3, 4, 3, 2, 2, 3, 1, 3, 2, 2, 3, 4, 4, 3, 2, 3];
        let mut weights = base;
        // swarm: disable a random half of the productions (never all)
        for w in weights.iter_mut() {
            if rng.chance(0.5) {
                *w = 0;
            }
        }
        if weights.iter().all(|w| *w == 0) {
            weights = base;
        }
        Gen { rng, weights, defined: vec![], used: [0; N_PRODUCTIONS] }
    }

    fn path(&mut self) -> &'static str {
        PATHS[self.rng.below(PATHS.len())]
    }

    /// a path that can be written / deleted (not bare metadata root for some forms; root allowed)
    fn wpath(&mut self) -> &'static str {
        loop {
            let p = self.path();
            if p != "%" || self.rng.chance(0.3) {
                return p;
            }
        }
    }

    /// Read `p` through a type-opaque expression (`get!` returns `any`) most of the time, so that what the
    /// compiler already knows about the path does not make the surrounding `??` / `ok, err =` "unnecessary".
    fn any(&mut self, p: &str) -> String {
        if self.rng.chance(0.75) { format!("get!({{\"v\": {p}}}, [\"v\"])") } else { p.to_string() }
    }

    fn lit(&mut self) -> &'static str {
        LITS[self.rng.below(LITS.len())]
    }

    fn rvalue(&mut self) -> String {
        let n = if self.defined.is_empty() { 26 } else { 27 };
        match self.rng.below(n) {
            // target operations inside expression-valued control flow: if-expression, block, right operand of `??`, `&&`, `||`
            21 => format!("{{ if exists({}) {{ {} }} else {{ del({}) }} }}", self.npath(), self.path(), self.npath()),
            22 => format!("{{ {} = {}; {} }}", self.wpath(), self.lit(), self.path()),
            23 => format!("(to_int({}) ?? del({}))", { let p = self.path(); self.any(p) }, self.npath()),
            24 => format!("(exists({}) && del({}) == {})", self.npath(), self.npath(), self.lit()),
            25 => format!("({} == {} || {{ {} = {}; false }})", self.path(), self.lit(), self.wpath(), self.lit()),
            // reads in operand / element / named-argument positions
            15 => format!("!({} == {})", self.path(), self.lit()),
            16 => format!("(0 - (to_int({}) ?? 1))", { let p = self.path(); self.any(p) }),
            17 => format!("(1 + (to_int({}) ?? 0))", { let p = self.path(); self.any(p) }),
            18 => format!("[{}, {}, {}]", self.lit(), self.lit(), self.path()),
            19 => format!("{{\"x\": {}, \"y\": {}}}.y", self.lit(), self.path()),
            20 => format!("upcase(value: string({}) ?? \"d\")", { let p = self.path(); self.any(p) }),
            // queries whose target is a container or a function call that itself reads the event
            12 => format!("{{\"k\": {}, \"l\": {}}}.k", self.path(), self.path()),
            13 => format!("[{}, {}][1]", self.path(), self.path()),
            14 => format!("parse_json!(encode_json({})).zz", self.path()),
            9 => format!("({} || {})", self.path(), self.path()),
            10 => format!("(exists({}) && {} == {})", self.npath(), self.path(), self.lit()),
            11 => format!("(({} ?? {}) ?? {})", { let p = self.path(); format!("to_int({})", self.any(p)) }, { let p = self.path(); format!("to_int({})", self.any(p)) }, self.lit()),
            0 => self.lit().to_string(),
            1 => self.path().to_string(),
            2 => format!("({} ?? {})", { let p = self.path(); format!("to_string({})", self.any(p)) }, "\"n\""),
            3 => format!("(to_int({}) ?? 0)", { let p = self.path(); self.any(p) }),
            4 => format!("exists({})", self.npath()),
            5 => format!("del({})", self.npath()),
            6 => format!("del({}, compact: true)", self.npath()),
            7 => format!("(string({}) ?? \"d\")", { let p = self.path(); self.any(p) }),
            8 => format!("length(array({}) ?? [])", { let p = self.path(); self.any(p) }),
            _ => self.defined[self.rng.below(self.defined.len())].to_string(),
        }
    }

    /// non-root path (exists/del of a bare root is rejected by the parser for some forms)
    fn npath(&mut self) -> &'static str {
        loop {
            let p = self.path();
            if p != "." && p != "%" {
                return p;
            }
        }
    }

    fn var(&mut self) -> &'static str {
        if self.rng.chance(0.5) { "x" } else { "y" }
    }

    fn stmt(&mut self, depth: u32, top: bool) -> String {
        let mut w = self.weights;
        if depth >= 2 {
            // no further nesting
            for i in [7usize, 8, 9, 10, 11, 12, 23, 24, 25, 28, 29, 31, 32, 33] {
                w[i] = 0;
            }
        }
        if !top {
            // early termination and variable definitions only at the top level
            w[16] = 0;
            w[17] = 0;
            w[26] = 0;
            w[27] = 0;
            w[35] = 0;
        }
        if w.iter().all(|x| *x == 0) {
            w[0] = 1;
        }
        let k = self.rng.weighted(&w);
        self.used[k] += 1;
        match k {
            0 => format!("{} = {}", self.wpath(), self.rvalue()),
            1 => {
                let v = self.var();
                let r = self.rvalue();
                if top && !self.defined.contains(&v) {
                    self.defined.push(v);
                }
                format!("{v} = {r}")
            }
            2 => {
                let p = self.wpath();
                let r = self.rvalue();
                if p == "." || p == "%" {
                    format!("{p} |= {{\"z\": {r}}}")
                } else {
                    format!("{p} = object({}) ?? {{}}\n{p} |= {{\"z\": {r}}}", self.any(p))
                }
            }
            3 => {
                let v = self.var();
                let s = format!("{}, {v} = to_int({})", self.wpath(), { let p = self.path(); self.any(p) });
                if top && !self.defined.contains(&v) {
                    self.defined.push(v);
                }
                s
            }
            4 => {
                let v = self.var();
                let s = format!("{v}, {} = to_int({})", self.wpath(), { let r = self.rvalue(); self.any(&r) });
                if top && !self.defined.contains(&v) {
                    self.defined.push(v);
                }
                s
            }
            5 => format!("del({})", self.npath()),
            6 => format!("del({}, compact: true)", self.npath()),
            7 => {
                let p = self.npath();
                let a = self.stmt(depth + 1, false);
                let b = self.stmt(depth + 1, false);
                format!("if exists({p}) {{\n  {}\n}} else {{\n  {}\n}}", a.replace('\n', "\n  "), b.replace('\n', "\n  "))
            }
            8 => {
                let r = self.rvalue();
                let l = self.lit();
                let a = self.stmt(depth + 1, false);
                format!("if {r} == {l} {{\n  {}\n}}", a.replace('\n', "\n  "))
            }
            9 => format!("for_each(object({}) ?? {{}}) -> |_k, v| {{ {} = v }}", { let p = self.path(); self.any(p) }, self.wpath()),
            10 => format!("for_each(array({}) ?? []) -> |i, _v| {{ {} = i }}", { let p = self.path(); self.any(p) }, self.wpath()),
            11 => {
                let v = self.var();
                let s = format!("{v} = map_values(object({}) ?? {{}}) -> |v| {{ {} = v; v }}", { let p = self.path(); self.any(p) }, self.wpath());
                if top && !self.defined.contains(&v) {
                    self.defined.push(v);
                }
                s
            }
            12 => {
                let v = self.var();
                let s = format!("{v} = filter(array({}) ?? []) -> |_i, v| {{ {} = v; true }}", { let p = self.path(); self.any(p) }, self.wpath());
                if top && !self.defined.contains(&v) {
                    self.defined.push(v);
                }
                s
            }
            13 => {
                let v = self.var();
                let p = self.npath();
                let s = format!("{v} = unnest({p}) ?? []");
                if top && !self.defined.contains(&v) {
                    self.defined.push(v);
                }
                s
            }
            14 => format!(". = {{\"a\": {}, \"arr\": [{}, {}]}}", self.rvalue(), self.rvalue(), self.rvalue()),
            15 => format!(". |= {{\"a\": {}}}", self.rvalue()),
            16 => "abort".to_string(),
            17 => format!("return {}", self.rvalue()),
            18 => format!("exists({})", self.npath()),
            19 => {
                let r = self.rvalue();
                let p = ["%m.arr[1]", ".o.p", ".a.b.c", ".arr[3]", ".b[0]", "%m.n.k"][self.rng.below(6)];
                format!("{p} = {r}")
            }
            20 => format!("{} = {} = {}", self.wpath(), self.wpath(), self.rvalue()),
            21 => {
                let p = self.path();
                format!("{}, {} = to_int({})", self.wpath(), self.wpath(), self.any(p))
            }
            23 | 24 => {
                // a branch that writes and then leaves the program: the writes before `abort` / `return` still happen
                let p = self.npath();
                let a = self.stmt(depth + 1, false);
                let tail = if k == 23 { "abort".to_string() } else { format!("return {}", self.rvalue()) };
                format!("if exists({p}) {{\n  {}\n  {tail}\n}}", a.replace('\n', "\n  "))
            }
            25 => {
                // three-way chain: each predicate and each branch touches the target
                let a = self.stmt(depth + 1, false);
                let b = self.stmt(depth + 1, false);
                let c = self.stmt(depth + 1, false);
                format!(
                    "if exists({}) {{\n  {}\n}} else if {} == {} {{\n  {}\n}} else {{\n  {}\n}}",
                    self.npath(), a.replace('\n', "\n  "), self.path(), self.lit(), b.replace('\n', "\n  "), c.replace('\n', "\n  ")
                )
            }
            26 => {
                let p = self.npath();
                let q = self.path();
                format!("if exists({p}) {{\n  abort \"stop: \" + (to_string({}) ?? \"?\")\n}}", self.any(q))
            }
            27 => {
                // build in a variable, then copy to the target (root or path)
                let v = self.var();
                let r1 = self.rvalue();
                let r2 = self.rvalue();
                let dst = if self.rng.chance(0.4) { "." } else { self.wpath() };
                let s = format!("{v} = {{}}\n{v}.a = {r1}\n{v}.arr = [{r2}]\n{dst} = {v}");
                if top && !self.defined.contains(&v) {
                    self.defined.push(v);
                }
                s
            }
            28 => {
                // nested closures, both parameters used, writes from the inner body
                let p = self.path();
                let q = self.path();
                format!(
                    "for_each(object({}) ?? {{}}) -> |k, v| {{ for_each(array({}) ?? []) -> |i, w| {{ {} = [k, v, i, w] }} }}",
                    self.any(p), self.any(q), self.wpath()
                )
            }
            29 => {
                // early return out of a closure iteration after a write
                let v = self.var();
                let p = self.path();
                let s = format!("{v} = map_values(object({}) ?? {{}}) -> |val| {{ {} = val; if val == {} {{ return {} }}; val }}", self.any(p), self.wpath(), self.lit(), self.lit());
                if top && !self.defined.contains(&v) {
                    self.defined.push(v);
                }
                s
            }
            31 => {
                // a path the program itself typed (boolean / string / integer / array / object) used where that type is
                // required without a runtime check: only a rejected write or read can make the value differ from the type
                let p = self.npath();
                match self.rng.below(9) {
                    6 => format!("{p} = 4\n{} = length(random_bytes!({p}))", self.wpath()),
                    7 => format!("{p} = 3\n{} = random_int!({p}, {p} + 1)", self.wpath()),
                    8 => format!("{p} = 1.5\n{} = is_float(random_float!({p}, {p} + 1.0))", self.wpath()),
                    0 => {
                        let a = self.stmt(depth + 1, false);
                        format!("{p} = true\nif {p} {{\n  {}\n}}", a.replace('\n', "\n  "))
                    }
                    1 => format!("{p} = \"Text\"\n{} = upcase({p}) + downcase({p})", self.wpath()),
                    2 => format!("{p} = 7\n{} = {p} + 1 - ({p} * 2)", self.wpath()),
                    3 => format!("{p} = [1, 2, 3]\n{} = length({p}) + length(push({p}, 4))", self.wpath()),
                    4 => format!("{p} = {{\"k\": 1}}\n{} = keys({p})\n{p} |= {{\"z\": 2}}", self.wpath()),
                    _ => format!("{p} = false\n{} = !{p} || {p}", self.wpath()),
                }
            }
            32 => {
                // the tail value of a closure comes straight from a typed path
                let p = self.npath();
                let q = self.path();
                let v = self.var();
                let s = match self.rng.below(4) {
                    0 => format!("{p} = true\n{v} = filter(array({}) ?? [1, 2]) -> |_i, _v| {{ {p} }}", self.any(q)),
                    1 => format!("{p} = \"key\"\n{v} = map_keys(object({}) ?? {{\"a\": 1}}) -> |_k| {{ {p} }}", self.any(q)),
                    2 => format!("{v} = filter(object({}) ?? {{\"a\": 1}}) -> |_k, _v| {{ {p} = true; {p} }}", self.any(q)),
                    _ => format!("{p} = \"r\"\n{v} = replace_with(\"a1b2\", r'\\d') -> |_m| {{ {p} }}"),
                };
                if top && !self.defined.contains(&v) {
                    self.defined.push(v);
                }
                s
            }
            33 => {
                // a predicate made of several statements: a read into a scratch variable, then the test
                let p = self.path();
                let l = self.lit();
                let a = self.stmt(depth + 1, false);
                format!("if (t = {}; t == {l} || exists({})) {{\n  {}\n}}", self.any(p), self.npath(), a.replace('\n', "\n  "))
            }
            34 => {
                // abort from inside a closure iteration, after a write
                let p = self.path();
                format!("for_each(array({}) ?? []) -> |_i, v| {{ {} = v; if v == {} {{ abort }} }}", self.any(p), self.wpath(), self.lit())
            }
            35 => {
                // edit a copy held in a variable (variable paths, del on a variable), then write it back
                let v = self.var();
                let p = self.path();
                let r = self.rvalue();
                let s = format!("{v} = object({}) ?? {{}}\n{v}.k.l = {r}\ndel({v}.b)\n{} = {v}", self.any(p), self.wpath());
                if top && !self.defined.contains(&v) {
                    self.defined.push(v);
                }
                s
            }
            30 => match self.rng.below(5) {
                0 => "% = {\"m\": {\"n\": 1}}".to_string(),
                1 => format!("{} = exists(%m)", self.wpath()),
                2 => format!(". |= object({}) ?? {{}}", { let p = self.path(); self.any(p) }),
                3 => format!("% |= {{\"k\": {}}}", self.rvalue()),
                _ => format!("{} = del(%m)", self.wpath()),
            },
            _ => {
                // functions that take the whole event / metadata as a value
                let root = if self.rng.chance(0.7) { "." } else { "%" };
                match self.rng.below(4) {
                    0 => format!("{} = length({root})", self.wpath()),
                    1 => format!("{} = encode_json({root})", self.wpath()),
                    2 => format!("{root} = merge({root}, {{\"mz\": {}}})", self.rvalue()),
                    _ => format!("{} = get!({root}, [\"a\"])", self.wpath()),
                }
            }
        }
    }

    pub fn program(&mut self) -> String {
        self.defined.clear();
        let n = self.rng.range(1, 8);
        let mut lines = vec![];
        for _ in 0..n {
            lines.push(self.stmt(0, true));
        }
        // tail: make variables observable
        for v in self.defined.clone() {
            lines.push(format!(".out_{v} = {v}"));
        }
        // usually the program ends by returning the event; sometimes its last statement is whatever came last
        if self.rng.chance(0.75) {
            lines.push(".".to_string());
        }
        lines.join("\n") + "\n"
    }
}

fn scalar(rng: &mut Rng) -> serde_json::Value {
    match rng.below(6) {
        0 => json!(1),
        1 => json!("s"),
        2 => json!(true),
        3 => json!(null),
        4 => json!(2.5),
        _ => json!("17"),
    }
}

fn object(rng: &mut Rng) -> serde_json::Value {
    match rng.below(5) {
        0 => json!({}),
        1 => json!({"b": 1, "c": {"d": 2}}),
        2 => json!({"p": {"q": 3}}),
        3 => json!({"b": {"c": 2}, "n": [1]}),
        _ => json!({"c": 1}),
    }
}

fn array(rng: &mut Rng) -> serde_json::Value {
    let n = rng.below(5);
    let mut v = vec![];
    for i in 0..n {
        v.push(match rng.below(4) {
            0 => json!({"x": i}),
            1 => object(rng),
            _ => scalar(rng),
        });
    }
    serde_json::Value::Array(v)
}

fn field(rng: &mut Rng) -> Option<serde_json::Value> {
    match rng.below(4) {
        0 => None,
        1 => Some(scalar(rng)),
        2 => Some(object(rng)),
        _ => Some(array(rng)),
    }
}

pub fn event(rng: &mut Rng) -> EventSpec {
    let mut ev = serde_json::Map::new();
    for name in ["a", "b", "arr", "o", "k k"] {
        let f = if name == "arr" && rng.chance(0.6) { Some(array(rng)) } else { field(rng) };
        if let Some(v) = f {
            ev.insert(name.to_string(), v);
        }
    }
    let mut md = serde_json::Map::new();
    for name in ["m", "arr"] {
        if let Some(v) = field(rng) {
            md.insert(name.to_string(), v);
        }
    }
    EventSpec { value: serde_json::Value::Object(ev), metadata: Some(serde_json::Value::Object(md)), secrets: Default::default() }
}

/// Candidate read-only entries (C15 knob): paths the vocabulary mentions and their neighbours.
pub const RO_CANDIDATES: &[&str] = &[
    ".a", ".b", ".a.b", ".a.c", ".a.b.c", ".arr", ".arr[0]", ".arr[1]", ".arr[2]", ".arr[-1]", ".\"k k\"", ".o", ".o.p", ".o.p.q", "%m", "%m.n",
    "%arr", "%arr[0]", "%arr[1]", ".out_x", ".arr[2].x", ".z", "%m.arr", ".a.z", ".\"a.b\"", ".ab", ".a_b", ".a.\"0\"", "%a", "%m.\"x y\"",
];

pub fn read_only_set(rng: &mut Rng) -> Vec<(String, bool)> {
    let n = rng.range(1, 3);
    let mut out: Vec<(String, bool)> = vec![];
    for _ in 0..n {
        let p = RO_CANDIDATES[rng.below(RO_CANDIDATES.len())].to_string();
        if !out.iter().any(|(q, _)| *q == p) {
            out.push((p, rng.chance(0.5)));
        }
    }
    out
}
