//! Baton-passing scheduler over real OS threads (N1). At most one node runs at
//! any instant; every decision "who runs next" is taken here, by the baton
//! holder, from the world's PRNG stream or from an explicit (replayed) list.

use std::cell::RefCell;
use std::collections::BTreeMap;
use std::sync::{Arc, Condvar, Mutex, MutexGuard};
use std::time::{Duration, Instant};

use serde::{Deserialize, Serialize};

use crate::prng::{fnv_add, Rng};

#[derive(Clone, Debug, Serialize, Deserialize, PartialEq)]
#[serde(tag = "mode", rename_all = "snake_case")]
pub enum Policy {
    /// at every yield: with probability `p` hand over to a random other runnable node
    Random { p: f64 },
    /// PCT-style: random priorities, `d` priority change points within the first `k` yields
    Pct { d: u32, k: u64 },
    /// no pre-emption inside an operation; random order of whole operations
    Serial,
    /// replay: sparse list of (decision number, node to run); everything else "keep running"
    Explicit { switches: Vec<(u64, u8)> },
}

#[derive(Clone, Debug, Default, Serialize, Deserialize)]
pub struct SchedReport {
    /// every decision at which the running node changed: (decision number, node)
    pub switches: Vec<(u64, u8)>,
    pub decisions: u64,
    pub yields: u64,
    /// switches by yield site
    pub switch_sites: BTreeMap<String, u64>,
    /// switches that happened while both the old and the new node were inside a Run
    pub switches_inside_runs: u64,
    /// ... and both were running the same program slot
    pub switches_same_program: u64,
    /// digest of the (node, site) sequence at which the running node changed
    pub interleaving_digest: u64,
    pub capped: bool,
    pub stuck: bool,
    /// yields at which the node could not proceed (a shimmed lock was held by a parked node)
    #[serde(default)]
    pub blocked_yields: u64,
}

struct St {
    n: usize,
    current: Option<usize>,
    finished: Vec<bool>,
    policy: Policy,
    rng: Rng,
    decision_no: u64,
    max_yields: u64,
    prio: Vec<u32>,
    change_points: Vec<u64>,
    next_low_prio: u32,
    in_run: Vec<Option<usize>>,
    report: SchedReport,
    done: bool,
}

pub struct Sched {
    st: Mutex<St>,
    cvs: Vec<Condvar>,
    coord: Condvar,
}

thread_local! {
    static NODE: RefCell<Option<(Arc<Sched>, usize)>> = const { RefCell::new(None) };
}

/// The function installed as vrl's yield hook and called by SimTarget.
pub fn yield_point(site: &'static str) {
    let ctx = NODE.with(|n| n.borrow().clone());
    if let Some((sched, id)) = ctx {
        sched.yield_now(id, site);
    }
}

/// Installed as vrl's "blocked" hook: returns true if another node ran in the meantime (retry), false if the
/// caller is not a scheduled node or nobody else can run (block for real).
pub fn yield_blocked(site: &'static str) -> bool {
    let ctx = NODE.with(|n| n.borrow().clone());
    match ctx {
        Some((sched, id)) => sched.yield_blocked(id, site),
        None => false,
    }
}

pub fn enter_node(sched: &Arc<Sched>, id: usize) {
    NODE.with(|n| *n.borrow_mut() = Some((sched.clone(), id)));
    sched.wait_for_baton(id);
}

pub fn leave_node() {
    let ctx = NODE.with(|n| n.borrow_mut().take());
    if let Some((sched, id)) = ctx {
        sched.finish(id);
    }
}

/// Mark that the calling node is inside / outside a Run of program slot `prog` (probe only).
pub fn mark_run(prog: Option<usize>) {
    let ctx = NODE.with(|n| n.borrow().clone());
    if let Some((sched, id)) = ctx {
        let mut st = sched.lock();
        st.in_run[id] = prog;
    }
}

impl Sched {
    pub fn new(n: usize, policy: Policy, seed: u64, max_yields: u64) -> Arc<Self> {
        let mut rng = Rng::new(seed);
        let mut prio: Vec<u32> = (0..n as u32).map(|i| i + 1000).collect();
        let mut change_points = vec![];
        if let Policy::Pct { d, k } = &policy {
            rng.shuffle(&mut prio);
            for _ in 0..d.saturating_sub(1) {
                change_points.push(rng.next_u64() % (*k).max(1));
            }
            change_points.sort_unstable();
        }
        Arc::new(Sched {
            st: Mutex::new(St {
                n,
                current: None,
                finished: vec![false; n],
                policy,
                rng,
                decision_no: 0,
                max_yields,
                prio,
                change_points,
                next_low_prio: 999,
                in_run: vec![None; n],
                report: SchedReport::default(),
                done: n == 0,
            }),
            cvs: (0..n).map(|_| Condvar::new()).collect(),
            coord: Condvar::new(),
        })
    }

    fn lock(&self) -> MutexGuard<'_, St> {
        self.st.lock().unwrap_or_else(|e| e.into_inner())
    }

    /// Decide who runs after decision point `site`, reached by `cur` (None = start / cur finished).
    fn decide(st: &mut St, cur: Option<usize>, site: &'static str, must_switch: bool) -> Option<usize> {
        let runnable: Vec<usize> = (0..st.n).filter(|i| !st.finished[*i]).collect();
        if runnable.is_empty() {
            return None;
        }
        let dn = st.decision_no;
        st.decision_no += 1;
        st.report.decisions = st.decision_no;
        let capped = st.report.yields > st.max_yields;
        if capped {
            st.report.capped = true;
        }
        let keep = cur.filter(|c| !st.finished[*c]);
        // `must_switch`: the current node cannot proceed (it found a lock held by a parked node); somebody
        // else has to run, whatever the policy or the yield cap say
        let others: Vec<usize> = runnable.iter().copied().filter(|i| Some(*i) != cur).collect();
        if must_switch && others.is_empty() {
            return cur;
        }
        let choice = if must_switch {
            match &st.policy {
                Policy::Explicit { switches } => {
                    let want = switches.iter().find(|(d, _)| *d == dn).map(|(_, n)| *n as usize);
                    match want {
                        Some(w) if others.contains(&w) => w,
                        _ => others[0],
                    }
                }
                Policy::Pct { .. } => {
                    if let Some(c) = keep {
                        st.prio[c] = st.next_low_prio;
                        st.next_low_prio = st.next_low_prio.saturating_sub(1);
                    }
                    *others.iter().max_by_key(|i| st.prio[**i]).unwrap()
                }
                _ => others[st.rng.below(others.len())],
            }
        } else {
        match &st.policy {
            Policy::Explicit { switches } => {
                let want = switches.iter().find(|(d, _)| *d == dn).map(|(_, n)| *n as usize);
                match want {
                    Some(w) if runnable.contains(&w) => w,
                    _ => keep.unwrap_or(runnable[0]),
                }
            }
            _ if capped => keep.unwrap_or(runnable[0]),
            Policy::Random { p } => {
                let p = *p;
                match keep {
                    Some(c) => {
                        if runnable.len() > 1 && st.rng.chance(p) {
                            let others: Vec<usize> = runnable.iter().copied().filter(|i| *i != c).collect();
                            others[st.rng.below(others.len())]
                        } else {
                            c
                        }
                    }
                    None => runnable[st.rng.below(runnable.len())],
                }
            }
            Policy::Serial => match keep {
                Some(c) if site != "op" => c,
                _ => runnable[st.rng.below(runnable.len())],
            },
            Policy::Pct { .. } => {
                if let Some(c) = keep {
                    if st.change_points.first().is_some_and(|cp| *cp <= dn) {
                        while st.change_points.first().is_some_and(|cp| *cp <= dn) {
                            st.change_points.remove(0);
                        }
                        st.prio[c] = st.next_low_prio;
                        st.next_low_prio = st.next_low_prio.saturating_sub(1);
                    }
                }
                *runnable.iter().max_by_key(|i| st.prio[**i]).unwrap()
            }
        }
        };
        if Some(choice) != cur {
            st.report.switches.push((dn, choice as u8));
            *st.report.switch_sites.entry(site.to_string()).or_insert(0) += 1;
            let mut h = st.report.interleaving_digest;
            h = fnv_add(h, &[choice as u8]);
            h = fnv_add(h, site.as_bytes());
            st.report.interleaving_digest = h;
            if let Some(c) = cur {
                if let (Some(a), Some(b)) = (st.in_run[c], st.in_run[choice]) {
                    st.report.switches_inside_runs += 1;
                    if a == b {
                        st.report.switches_same_program += 1;
                    }
                }
            }
        }
        Some(choice)
    }

    fn wait_for_baton(&self, id: usize) {
        let mut st = self.lock();
        while st.current != Some(id) {
            st = self.cvs[id].wait(st).unwrap_or_else(|e| e.into_inner());
        }
    }

    pub fn yield_now(&self, id: usize, site: &'static str) {
        let mut st = self.lock();
        debug_assert_eq!(st.current, Some(id));
        st.report.yields += 1;
        let next = Self::decide(&mut st, Some(id), site, false);
        match next {
            Some(n) if n != id => {
                st.current = Some(n);
                self.cvs[n].notify_one();
                while st.current != Some(id) {
                    st = self.cvs[id].wait(st).unwrap_or_else(|e| e.into_inner());
                }
            }
            _ => {}
        }
    }

    /// The calling node cannot proceed until some other node has run. Returns false if there is nobody
    /// else to run (the caller then blocks for real; a genuine deadlock ends up at the watchdog).
    pub fn yield_blocked(&self, id: usize, site: &'static str) -> bool {
        let mut st = self.lock();
        st.report.yields += 1;
        st.report.blocked_yields += 1;
        let next = Self::decide(&mut st, Some(id), site, true);
        match next {
            Some(n) if n != id => {
                st.current = Some(n);
                self.cvs[n].notify_one();
                while st.current != Some(id) {
                    st = self.cvs[id].wait(st).unwrap_or_else(|e| e.into_inner());
                }
                true
            }
            _ => false,
        }
    }

    fn finish(&self, id: usize) {
        let mut st = self.lock();
        st.finished[id] = true;
        st.in_run[id] = None;
        let next = Self::decide(&mut st, Some(id), "finish", false);
        match next {
            Some(n) => {
                st.current = Some(n);
                self.cvs[n].notify_one();
            }
            None => {
                st.current = None;
                st.done = true;
                self.coord.notify_all();
            }
        }
    }

    /// Called by the coordinator once all node threads exist: hand out the baton, wait for the
    /// world to finish. Wall-clock time is consulted only by the watchdog (a hang becomes a report).
    pub fn run_to_completion(&self, watchdog: Duration) -> SchedReport {
        {
            let mut st = self.lock();
            if !st.done {
                let first = Self::decide(&mut st, None, "start", false);
                st.current = first;
                if let Some(f) = first {
                    self.cvs[f].notify_one();
                }
            }
        }
        let mut st = self.lock();
        let mut last_progress = (st.report.yields, Instant::now());
        while !st.done {
            let (g, _) = self
                .coord
                .wait_timeout(st, Duration::from_millis(200))
                .unwrap_or_else(|e| e.into_inner());
            st = g;
            if st.report.yields != last_progress.0 {
                last_progress = (st.report.yields, Instant::now());
            } else if last_progress.1.elapsed() > watchdog {
                st.report.stuck = true;
                break;
            }
        }
        st.report.clone()
    }
}
