//! Serde data model: what a session is (input to a worker process), what it
//! observed (output), and the replay file (input + verdict).

use std::collections::BTreeMap;

use serde::{Deserialize, Serialize};

use crate::sched::{Policy, SchedReport};

#[derive(Clone, Debug, Serialize, Deserialize, Default)]
pub struct SessionSpec {
    /// informational: the VERIF_SEED-derived stream this session was drawn from
    pub seed: u64,
    /// value of the TZ environment variable for the whole session (None = unset = UTC)
    #[serde(default)]
    pub tz_env: Option<String>,
    /// address-space layout salt: length of a padding env var + size of a first dummy allocation
    #[serde(default)]
    pub layout_salt: u32,
    pub worlds: Vec<WorldSpec>,
}

#[derive(Clone, Debug, Serialize, Deserialize, Default)]
pub struct WorldSpec {
    pub id: String,
    /// pinned wall clock (unix seconds, UTC) seen by the five non-exempt Utc::now() sites
    #[serde(default)]
    pub clock: Option<i64>,
    /// hash seed of the world's coordinator thread (precompilation happens there)
    #[serde(default)]
    pub coord_hash_seed: u64,
    pub programs: Vec<ProgramSpec>,
    pub events: Vec<EventSpec>,
    pub nodes: Vec<NodeSpec>,
    pub sched: SchedSpec,
    /// file-system states to establish (in the session scratch dir) before the world starts
    #[serde(default)]
    pub files: Vec<FileState>,
    /// which online monitors SimTarget evaluates: "c15", "c16"
    #[serde(default)]
    pub monitors: Vec<String>,
    /// fresh coordinator + node threads for this world (hash seeds are then knobs of the world);
    /// otherwise the session's long-lived threads are reused
    #[serde(default)]
    pub fresh_threads: bool,
}

#[derive(Clone, Debug, Serialize, Deserialize)]
pub struct SchedSpec {
    pub policy: Policy,
    pub seed: u64,
    #[serde(default = "default_max_yields")]
    pub max_yields: u64,
}

fn default_max_yields() -> u64 {
    50_000
}

impl Default for SchedSpec {
    fn default() -> Self {
        SchedSpec { policy: Policy::Serial, seed: 0, max_yields: default_max_yields() }
    }
}

#[derive(Clone, Debug, Serialize, Deserialize, Default, PartialEq)]
pub struct ProgramSpec {
    /// VRL source; the token `@DIR@` is replaced by the session scratch directory
    pub source: String,
    /// (path text incl. prefix, recursive)
    #[serde(default)]
    pub read_only: Vec<(String, bool)>,
    /// compile before the nodes start, on the coordinator thread, and share the Arc
    #[serde(default = "yes")]
    pub precompile: bool,
    /// label for reports (corpus id, generator id)
    #[serde(default)]
    pub label: String,
}

fn yes() -> bool {
    true
}

#[derive(Clone, Debug, Serialize, Deserialize, Default, PartialEq)]
pub struct EventSpec {
    pub value: serde_json::Value,
    #[serde(default)]
    pub metadata: Option<serde_json::Value>,
    #[serde(default)]
    pub secrets: BTreeMap<String, String>,
}

#[derive(Clone, Debug, Serialize, Deserialize, Default)]
pub struct NodeSpec {
    /// "UTC", "Local", or an IANA name
    #[serde(default = "utc")]
    pub tz: String,
    #[serde(default)]
    pub hash_seed: u64,
    /// node holds deep clones of the shared programs instead of the shared Arc
    #[serde(default)]
    pub own_clone: bool,
    /// TargetValueRef instead of TargetValue
    #[serde(default)]
    pub ref_backing: bool,
    pub ops: Vec<Op>,
}

fn utc() -> String {
    "UTC".to_string()
}

#[derive(Clone, Debug, Serialize, Deserialize, PartialEq)]
#[serde(tag = "op", rename_all = "snake_case")]
pub enum Op {
    /// compile programs[prog] on this node (interleaved with everything else) and use the result from now on
    Compile { prog: usize },
    Run {
        prog: usize,
        event: usize,
        /// fresh Runtime for this run (otherwise the node's long-lived runtime is reused as is)
        #[serde(default)]
        fresh_runtime: bool,
        #[serde(default)]
        faults: FaultPlan,
        /// role of this run for the judge: "ctl", "fault:<id>", "skip:<id>", "after:<id>", "cmp", ...
        #[serde(default)]
        tag: String,
    },
    /// Runtime::clear() on the node's long-lived runtime
    Clear,
    /// replace the node's handle by a deep clone of the program
    CloneProgram { prog: usize },
    /// drop the node's handle (the last Arc may die here); a later Run recompiles
    DropProgram { prog: usize },
    /// change a file of the scratch directory in the middle of the world
    SetFile { file: FileState },
}

#[derive(Clone, Debug, Serialize, Deserialize, Default, PartialEq)]
pub struct FaultPlan {
    /// reference arm: faulted operations return the Ok value that means "skipped" instead of Err
    #[serde(default)]
    pub skip_mode: bool,
    /// k-th target operation of the run (0 = the runtime's root probe) fails
    #[serde(default)]
    pub at: Vec<u32>,
    /// k-th operation answers Ok(None) on a get (only meaningful for the root probe)
    #[serde(default)]
    pub none_at: Vec<u32>,
    /// every insert/remove at or below this path fails (from the start of the run)
    #[serde(default)]
    pub sticky_write: Vec<String>,
    /// every get at or below this path fails
    #[serde(default)]
    pub sticky_read: Vec<String>,
    /// operations k..k+len fail
    #[serde(default)]
    pub burst: Vec<(u32, u32)>,
}

impl FaultPlan {
    pub fn is_empty(&self) -> bool {
        self.at.is_empty()
            && self.none_at.is_empty()
            && self.sticky_write.is_empty()
            && self.sticky_read.is_empty()
            && self.burst.is_empty()
    }
}

#[derive(Clone, Debug, Serialize, Deserialize, PartialEq)]
pub struct FileState {
    /// path relative to the session scratch dir
    pub name: String,
    pub state: FileKind,
}

#[derive(Clone, Debug, Serialize, Deserialize, PartialEq)]
#[serde(tag = "kind", rename_all = "snake_case")]
pub enum FileKind {
    Absent,
    /// copy of a fixture (path relative to /repo or absolute), truncated / flipped / appended as asked
    Content {
        from: String,
        #[serde(default)]
        truncate: Option<u64>,
        #[serde(default)]
        flip_bit: Option<u64>,
        #[serde(default)]
        append: Option<String>,
        /// modification time to give the file (unix seconds; may be negative)
        #[serde(default)]
        mtime: Option<i64>,
    },
    Bytes { hex: String },
    Directory,
    DanglingSymlink,
    SymlinkLoop,
    /// `name` is `file/child` where `file` is a regular file (ENOTDIR)
    ThroughFile,
}

// ---------------------------------------------------------------------------------------------

#[derive(Clone, Debug, Serialize, Deserialize, Default)]
pub struct SessionResult {
    pub worlds: Vec<WorldResult>,
    #[serde(default)]
    pub aslr_disabled: bool,
    #[serde(default)]
    pub entropy_calls: u64,
}

#[derive(Clone, Debug, Serialize, Deserialize, Default)]
pub struct WorldResult {
    pub id: String,
    /// precompilation outcomes, one per program (None if precompile = false)
    pub precompiled: Vec<Option<String>>,
    /// observations in node order then op order
    pub obs: Vec<Obs>,
    pub sched: SchedReport,
    /// violations found online by SimTarget monitors / residue checks
    pub monitor_hits: Vec<MonitorHit>,
    pub probes: BTreeMap<String, u64>,
    /// digest over the whole event log of the world (determinism self-test)
    pub log_digest: u64,
}

#[derive(Clone, Debug, Serialize, Deserialize, Default, PartialEq)]
pub struct Obs {
    pub node: usize,
    pub op: usize,
    /// "compile" | "run" | "clear"
    pub kind: String,
    /// canonical rendering of the outcome
    pub outcome: String,
    /// for runs: the sequence of target operations, rendered (one line each)
    #[serde(default)]
    pub target_ops: Vec<String>,
    /// faults that actually fired (kind -> count)
    #[serde(default)]
    pub fired: BTreeMap<String, u32>,
    #[serde(default)]
    pub panicked: bool,
    /// per-run monitor counters (operations checked by c15 / c16, ...)
    #[serde(default)]
    pub counters: BTreeMap<String, u64>,
}

#[derive(Clone, Debug, Serialize, Deserialize, Default, PartialEq)]
pub struct MonitorHit {
    /// finer classification by the monitor (shape of the failing operation); empty = the monitor's default class
    #[serde(default)]
    pub class: String,
    pub monitor: String,
    pub node: usize,
    pub op: usize,
    pub what: String,
}

// ---------------------------------------------------------------------------------------------

#[derive(Clone, Debug, Serialize, Deserialize)]
pub struct ReplayFile {
    pub property: String,
    pub class: String,
    /// which world / node / op the first divergent observation was made at
    pub at: String,
    pub observed: String,
    pub expected: String,
    pub vrl_tree: String,
    pub seed: u64,
    /// the check-specific judge that turns observations into this verdict
    pub judge: String,
    pub session: SessionSpec,
    /// for reference-arm judges: a second session to compare with (e.g. golden, skip reference)
    #[serde(default)]
    pub reference: Vec<SessionSpec>,
    #[serde(default)]
    pub note: String,
}
