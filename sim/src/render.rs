//! Canonical, lossless-enough renderings used by all equality oracles.

use std::fmt::Write;

use vrl::compiler::runtime::Terminate;
use vrl::compiler::{Program, TypeDef};
use vrl::diagnostic::{DiagnosticList, Formatter};
use vrl::path::{OwnedSegment, OwnedTargetPath, PathPrefix};
use vrl::value::Value;

pub fn value(v: &Value) -> String {
    let mut s = String::new();
    write_value(&mut s, v);
    s
}

fn write_str(out: &mut String, b: &[u8]) {
    match std::str::from_utf8(b) {
        Ok(st) => {
            out.push('"');
            for c in st.chars() {
                match c {
                    '"' => out.push_str("\\\""),
                    '\\' => out.push_str("\\\\"),
                    '\n' => out.push_str("\\n"),
                    '\r' => out.push_str("\\r"),
                    '\t' => out.push_str("\\t"),
                    c if (c as u32) < 0x20 => {
                        let _ = write!(out, "\\u{:04x}", c as u32);
                    }
                    c => out.push(c),
                }
            }
            out.push('"');
        }
        Err(_) => {
            out.push_str("b\"");
            for x in b {
                let _ = write!(out, "{x:02x}");
            }
            out.push('"');
        }
    }
}

pub fn write_value(out: &mut String, v: &Value) {
    match v {
        Value::Bytes(b) => write_str(out, b),
        Value::Regex(r) => {
            let _ = write!(out, "r'{}'", r.as_str());
        }
        Value::Integer(i) => {
            let _ = write!(out, "{i}");
        }
        Value::Float(f) => {
            let _ = write!(out, "{:?}f", f.into_inner());
        }
        Value::Boolean(b) => {
            let _ = write!(out, "{b}");
        }
        Value::Timestamp(t) => {
            let _ = write!(out, "t'{}'", t.to_rfc3339_opts(chrono::SecondsFormat::Nanos, true));
        }
        Value::Null => out.push_str("null"),
        Value::Array(a) => {
            out.push('[');
            for (i, x) in a.iter().enumerate() {
                if i > 0 {
                    out.push_str(", ");
                }
                write_value(out, x);
            }
            out.push(']');
        }
        Value::Object(o) => {
            out.push('{');
            for (i, (k, x)) in o.iter().enumerate() {
                if i > 0 {
                    out.push_str(", ");
                }
                write_str(out, k.as_str().as_bytes());
                out.push_str(": ");
                write_value(out, x);
            }
            out.push('}');
        }
    }
}

pub fn opt_value(v: Option<&Value>) -> String {
    match v {
        Some(v) => format!("Some({})", value(v)),
        None => "None".to_string(),
    }
}

pub fn target_path(p: &OwnedTargetPath) -> String {
    let mut s = String::new();
    s.push(match p.prefix {
        PathPrefix::Event => '.',
        PathPrefix::Metadata => '%',
    });
    for (i, seg) in p.path.segments.iter().enumerate() {
        match seg {
            OwnedSegment::Field(f) => {
                if i > 0 {
                    s.push('.');
                }
                let plain = !f.is_empty() && f.chars().all(|c| c.is_ascii_alphanumeric() || c == '_' || c == '@');
                if plain {
                    s.push_str(f);
                } else {
                    write_str(&mut s, f.as_bytes());
                }
            }
            OwnedSegment::Index(ix) => {
                let _ = write!(s, "[{ix}]");
            }
        }
    }
    s
}

pub fn run_result(r: &Result<Value, Terminate>) -> String {
    match r {
        Ok(v) => format!("Ok({})", value(v)),
        Err(Terminate::Abort(e)) => format!("Abort({e:?})"),
        Err(Terminate::Error(e)) => format!("Error({e:?})"),
    }
}

/// Is this run result an error termination (used by the root-probe oracle, message not compared)?
pub fn is_error_termination(r: &Result<Value, Terminate>) -> bool {
    matches!(r, Err(Terminate::Error(_)))
}

pub fn type_def(t: &TypeDef) -> String {
    format!("{t:?}")
}

pub fn diagnostics(source: &str, d: DiagnosticList) -> String {
    Formatter::new(source, d).to_string()
}

pub fn compiled(source: &str, program: &Program, warnings: DiagnosticList) -> String {
    let info = program.info();
    let fin = program.final_type_info();
    let mut s = String::new();
    let _ = writeln!(s, "ACCEPTED");
    let _ = writeln!(s, "fallible={} abortable={}", info.fallible, info.abortable);
    let q: Vec<String> = info.target_queries.iter().map(target_path).collect();
    let a: Vec<String> = info.target_assignments.iter().map(target_path).collect();
    let _ = writeln!(s, "queries={q:?}");
    let _ = writeln!(s, "assignments={a:?}");
    let _ = writeln!(s, "result={}", type_def(&fin.result));
    let _ = writeln!(s, "target_kind={:?}", fin.state.external.target_kind());
    let _ = writeln!(s, "metadata_kind={:?}", fin.state.external.metadata_kind());
    let _ = writeln!(s, "warnings:\n{}", diagnostics(source, warnings));
    s
}
