//! Fork server. A `vrl-sim zygote` process does nothing but fork: every session runs in a child forked
//! from the same pristine, single-threaded image (no VRL code has run, no lazy static is initialised,
//! no heap allocation of the zygote depends on earlier sessions, ASLR is off), so a session is still
//! "one fresh OS process" and its initial state is identical for every session — and starting one costs a
//! fork instead of exec + relocation of a 30 MB binary.
//!
//! Protocol on the zygote's stdin/stdout (shared with its children):
//!   driver -> child : u32 length (LE) + session spec JSON
//!   child  -> driver: b'R' + u32 length + session result JSON
//!   zygote -> driver: b'S' + i32 status (0 = child exited 0, 1000+sig = killed by signal, 2000 = timeout, else exit code)

use crate::spec::SessionSpec;

fn read_exact_fd(fd: i32, buf: &mut [u8]) -> bool {
    let mut off = 0;
    while off < buf.len() {
        let n = unsafe { libc::read(fd, buf[off..].as_mut_ptr().cast(), buf.len() - off) };
        if n <= 0 {
            if n < 0 && std::io::Error::last_os_error().kind() == std::io::ErrorKind::Interrupted {
                continue;
            }
            return false;
        }
        off += n as usize;
    }
    true
}

pub fn write_all_fd(fd: i32, buf: &[u8]) -> bool {
    let mut off = 0;
    while off < buf.len() {
        let n = unsafe { libc::write(fd, buf[off..].as_ptr().cast(), buf.len() - off) };
        if n <= 0 {
            if n < 0 && std::io::Error::last_os_error().kind() == std::io::ErrorKind::Interrupted {
                continue;
            }
            return false;
        }
        off += n as usize;
    }
    true
}

/// Body of a forked child: read one spec, run it, write the result frame, leave.
fn child_main() -> ! {
    let mut len = [0u8; 4];
    if !read_exact_fd(0, &mut len) {
        unsafe { libc::_exit(99) }; // driver closed the pipe: shut down
    }
    let n = u32::from_le_bytes(len) as usize;
    let mut buf = vec![0u8; n];
    if !read_exact_fd(0, &mut buf) {
        unsafe { libc::_exit(98) };
    }
    let spec: SessionSpec = match serde_json::from_slice(&buf) {
        Ok(s) => s,
        Err(_) => unsafe { libc::_exit(97) },
    };
    drop(buf);
    // environment seam (N6): TZ for the whole session; we are single-threaded here
    unsafe {
        match &spec.tz_env {
            Some(tz) => std::env::set_var("TZ", tz),
            None => std::env::remove_var("TZ"),
        }
    }
    // layout salt (N11): shift the heap by a salt-dependent amount before anything else is allocated
    for _ in 0..(spec.layout_salt % 64) {
        std::mem::forget(vec![0u8; 1024]);
    }
    crate::entropy::seed_process(0x5E55_1011);
    let res = crate::worker::run_session(&spec);
    crate::worker::emit_result(&res);
    unsafe { libc::_exit(0) }
}

pub fn zygote_main() -> ! {
    crate::worker::install_hooks();
    crate::worker::RESULT_FRAMED.store(true, std::sync::atomic::Ordering::SeqCst);
    loop {
        let pid = unsafe { libc::fork() };
        if pid < 0 {
            std::process::exit(3);
        }
        if pid == 0 {
            child_main();
        }
        // parent: wait for the child without allocating. The wall-clock limit is enforced by the driver, which
        // knows when it handed the spec over and kills the whole process group.
        let mut status: libc::c_int = 0;
        let code: i32 = loop {
            let r = unsafe { libc::waitpid(pid, &mut status, 0) };
            if r == pid {
                break if libc::WIFEXITED(status) { libc::WEXITSTATUS(status) } else if libc::WIFSIGNALED(status) { 1000 + libc::WTERMSIG(status) } else { 1999 };
            }
            if r < 0 && std::io::Error::last_os_error().kind() != std::io::ErrorKind::Interrupted {
                break 1998;
            }
        };
        if code == 99 {
            std::process::exit(0);
        }
        let mut frame = [0u8; 5];
        frame[0] = b'S';
        frame[1..5].copy_from_slice(&code.to_le_bytes());
        if !write_all_fd(1, &frame) {
            std::process::exit(0);
        }
    }
}
