mod batch;
mod c04;
mod c14;
mod c15;
mod c16;
mod c17;
mod c36;
mod check;
mod corpus;
mod driver;
mod entropy;
mod genprog;
mod judge;
mod minimise;
mod prng;
mod render;
mod selftest;
mod sched;
mod spec;
mod target;
mod worker;
mod zygote;

use std::io::Read;

pub fn aslr_is_off() -> bool {
    // personality(0xffffffff) queries without changing
    let p = unsafe { libc::personality(0xffff_ffff) };
    p >= 0 && (p & libc::ADDR_NO_RANDOMIZE) != 0
}

/// Sessions run without address-space layout randomisation (N11): set the persona and re-exec once.
fn ensure_aslr_off() {
    if aslr_is_off() || std::env::var_os("VRL_SIM_KEEP_ASLR").is_some() {
        return;
    }
    unsafe {
        let cur = libc::personality(0xffff_ffff);
        if cur < 0 || libc::personality((cur | libc::ADDR_NO_RANDOMIZE) as libc::c_ulong) < 0 {
            return; // refused: run with ASLR (Appendix C fallback)
        }
    }
    use std::os::unix::process::CommandExt;
    let args: Vec<String> = std::env::args().collect();
    let err = std::process::Command::new("/proc/self/exe").args(&args[1..]).env("VRL_SIM_REEXEC", "1").exec();
    eprintln!("re-exec failed: {err}");
}

fn main() {
    let args: Vec<String> = std::env::args().collect();
    let cmd = args.get(1).map(String::as_str).unwrap_or("");
    // every vrl-sim process (driver and workers) runs without ASLR; children inherit the persona
    if std::env::var_os("VRL_SIM_REEXEC").is_none() {
        ensure_aslr_off();
    }
    match cmd {
        "session" => {
            entropy::seed_process(0x5E55_1011);
            worker::install_hooks();
            let mut input = String::new();
            std::io::stdin().read_to_string(&mut input).expect("read spec");
            let spec: spec::SessionSpec = serde_json::from_str(&input).expect("parse spec");
            // layout salt, second half: a first dummy allocation
            let _pad: Vec<u8> = Vec::with_capacity((spec.layout_salt as usize % 64) * 4096 + 1);
            let res = worker::run_session(&spec);
            worker::emit_result(&res);
        }
        "zygote" => zygote::zygote_main(),
        "run-spec" => {
            // driver-side convenience: run a session spec file in a fresh worker and print the result
            let text = std::fs::read_to_string(&args[2]).expect("read");
            let spec: spec::SessionSpec = serde_json::from_str(&text).expect("parse");
            match driver::run_one(&spec, std::time::Duration::from_secs(300)) {
                Ok(r) => println!("{}", serde_json::to_string_pretty(&r).unwrap()),
                Err(e) => {
                    eprintln!("{e}");
                    std::process::exit(2);
                }
            }
        }
        "check" => {
            let prop = args.get(2).cloned().unwrap_or_default();
            let tier = match args.iter().position(|a| a == "--tier").and_then(|i| args.get(i + 1)).map(String::as_str).or(std::env::var("VERIF_TIER").ok().as_deref()) {
                Some("thorough") => check::Tier::Thorough,
                _ => check::Tier::Quick,
            };
            let ctx = check::Ctx::new(&prop, tier);
            match prop.as_str() {
                "C17" => c17::run(&ctx),
                "C16" => c16::run(&ctx),
                "C14" => c14::run(&ctx),
                "C36" => c36::run(&ctx),
                "C04" => c04::run(&ctx),
                "C15" => c15::run(&ctx),
                other => {
                    eprintln!("no check for {other}");
                    std::process::exit(2);
                }
            }
        }
        "selftest" => match args.get(2).map(String::as_str) {
            Some("determinism") => {
                let n = args.get(3).and_then(|s| s.parse().ok()).unwrap_or(400);
                selftest::determinism(n)
            }
            _ => {
                eprintln!("usage: vrl-sim selftest determinism [n_sessions]");
                std::process::exit(2);
            }
        },
        "gen-stats" => {
            // diagnostic: acceptance rate of generator-G programs, with the first line of the commonest rejections
            worker::install_hooks();
            let mut rng = prng::Rng::new(7);
            let scratch = worker::Scratch::new();
            let mut ok = 0;
            let mut reasons: std::collections::BTreeMap<String, (u32, String)> = Default::default();
            let n = 3000;
            for i in 0..n {
                let mut sub = rng.derive(i);
                let src = genprog::Gen::new(&mut sub).program();
                let c = worker::compile_program(&spec::ProgramSpec { source: src.clone(), ..Default::default() }, &scratch);
                if c.program.is_some() {
                    ok += 1;
                } else {
                    let key = c.outcome.lines().find(|l| l.starts_with("error")).unwrap_or("?").to_string();
                    let e = reasons.entry(key).or_insert((0, src.clone()));
                    e.0 += 1;
                }
                rng.next_u64();
            }
            println!("accepted {ok} of {n}");
            let mut v: Vec<_> = reasons.into_iter().collect();
            v.sort_by_key(|(_, (n, _))| std::cmp::Reverse(*n));
            for (k, (n, src)) in v.iter().take(12) {
                println!("{n:5}  {k}\n        e.g. {}", src.replace('\n', " ; "));
            }
        }
        "corpus" => {
            for (name, cs) in [("A", corpus::corpus_a()), ("P", corpus::corpus_a_param_variants()), ("B", corpus::corpus_b()), ("C", corpus::corpus_c())] {
                let comparable = cs.iter().filter(|c| c.comparable()).count();
                let ro = cs.iter().filter(|c| !c.program.read_only.is_empty()).count();
                println!("corpus {name}: {} cases, {comparable} comparable, {ro} with read-only annotations, {} diagnostics", cs.len(), cs.iter().filter(|c| c.diagnostics).count());
                if args.iter().any(|a| a == "-v") {
                    for c in &cs {
                        println!("  {} comparable={} skip={} tags={:?} ro={:?}", c.label, c.comparable(), c.skip, c.tags, c.program.read_only);
                    }
                }
            }
        }
        "show-goldens" => {
            // diagnostic: golden outcome of every case whose label starts with the given prefix
            let prefix = args.get(2).cloned().unwrap_or_default();
            for it in c14::items(true).iter().filter(|it| it.case.label.starts_with(&prefix)) {
                for e in 0..it.events.len() {
                    let s = c14::golden_session(it, e);
                    match driver::run_one(&s, std::time::Duration::from_secs(300)) {
                        Ok(r) => {
                            println!("=== {} event {e}", it.case.label);
                            for o in &r.worlds[0].obs {
                                let txt = if o.kind == "compile" { o.outcome.lines().filter(|l| !l.starts_with("result=") && !l.contains("_kind=")).take(30).collect::<Vec<_>>().join("\n") } else { o.outcome.clone() };
                                println!("[{}] {}", o.kind, check::truncate(&txt, 1500));
                            }
                        }
                        Err(e) => println!("=== {} FAILED {e}", it.case.label),
                    }
                }
            }
        }
        "time-goldens" => {
            // diagnostic: wall time of each golden session, slowest first
            let items = c14::items(true);
            let mut rows = vec![];
            for it in &items {
                let s = c14::golden_session(it, 0);
                let t = std::time::Instant::now();
                let _ = driver::run_one(&s, std::time::Duration::from_secs(300));
                rows.push((t.elapsed().as_millis(), it.case.label.clone()));
            }
            rows.sort();
            rows.reverse();
            let total: u128 = rows.iter().map(|r| r.0).sum();
            println!("total {total} ms over {} sessions", rows.len());
            for r in rows.iter().take(40) {
                println!("{:6} ms  {}", r.0, r.1);
            }
        }
        "replay" => {
            let text = std::fs::read_to_string(&args[2]).expect("read replay file");
            let file: spec::ReplayFile = serde_json::from_str(&text).expect("parse replay file");
            println!("replaying {} / {} (recorded on vrl tree {}, now {})", file.property, file.class, file.vrl_tree, check::vrl_tree_id());
            match check::execute(&file.judge, &file.session, &file.reference, std::time::Duration::from_secs(600)) {
                Ok(vs) => {
                    let hit = vs.iter().find(|v| v.property == file.property && v.class == file.class);
                    match hit {
                        Some(v) => {
                            println!("reproduced at {}\n  observed: {}\n  expected: {}", v.at, check::truncate(&v.observed, 600), check::truncate(&v.expected, 600));
                            println!("VIOLATION property={} replay={}", file.property, args[2]);
                            std::process::exit(1);
                        }
                        None => {
                            println!("not reproduced ({} other violations)", vs.len());
                            std::process::exit(0);
                        }
                    }
                }
                Err(e) => {
                    eprintln!("HARNESS: {e}");
                    std::process::exit(2);
                }
            }
        }
        _ => {
            eprintln!("usage: vrl-sim session | run-spec <file> | check <Cxx> [--tier quick|thorough] | replay <file> | minimise <file> | selftest ...");
            std::process::exit(2);
        }
    }
}
