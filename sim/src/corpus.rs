//! Workload corpora (3.4): A = maintainers' examples (through the public API, so it follows /repo),
//! B = lib/tests/tests/**/*.vrl, C = /verif/corpus/tests/**/*.vrl (shapes aimed at the seams).

use std::path::{Path, PathBuf};

use crate::spec::{EventSpec, ProgramSpec};
use crate::worker::{repo_dir, verif_dir};

#[derive(Clone, Debug)]
pub struct Case {
    pub label: String,
    pub program: ProgramSpec,
    pub event: EventSpec,
    /// maintainers say the result is deterministic (examples) / file is not marked SKIP
    pub deterministic: bool,
    pub skip: bool,
    /// diagnostics tests are expected not to compile
    pub diagnostics: bool,
    pub tags: Vec<String>,
    pub extra_events: Vec<EventSpec>,
}

/// Functions C14 exempts explicitly, plus get_timezone_name (reads the environment by definition).
pub const EXEMPT: &[&str] = &[
    "now(", "random_", "uuid_v4", "uuid_v7", "get_hostname", "get_env_var", "dns_lookup", "reverse_dns",
    "http_request", "get_timezone_name",
];

impl Case {
    pub fn mentions_exempt(&self) -> bool {
        // `now!()` is the same call as `now()`
        let src = self.program.source.replace("!(", "(");
        EXEMPT.iter().any(|f| src.contains(f))
    }
    /// usable in equality oracles
    pub fn comparable(&self) -> bool {
        self.deterministic && !self.skip && !self.mentions_exempt() && !self.heavy()
    }
    /// a single run takes more than a second (zstd level 22 allocates a huge window): kept out of the workloads
    pub fn heavy(&self) -> bool {
        self.program.source.contains("compression_level: 22")
    }
}

fn default_secrets() -> std::collections::BTreeMap<String, String> {
    // same dummy secrets as the test runner gives to examples
    [("my_secret", "secret value"), ("datadog_api_key", "secret value")]
        .iter()
        .map(|(k, v)| (k.to_string(), v.to_string()))
        .collect()
}

pub fn corpus_a() -> Vec<Case> {
    let mut out = vec![];
    for f in vrl::stdlib::all() {
        let mut i = 0;
        let mut push = |ex: &vrl::compiler::function::Example, kind: &str| {
            let value = match ex.input {
                Some(s) => serde_json::from_str(s).unwrap_or(serde_json::Value::Null),
                None => serde_json::json!({}),
            };
            out.push(Case {
                label: format!("A:{}{}:{}", f.identifier(), kind, i),
                program: ProgramSpec { source: ex.source.to_string(), read_only: vec![], precompile: true, label: format!("A:{}{}:{}", f.identifier(), kind, i) },
                event: EventSpec { value, metadata: None, secrets: default_secrets() },
                deterministic: ex.deterministic,
                skip: ex.skip,
                diagnostics: false,
                tags: vec![],
                extra_events: vec![],
            });
            i += 1;
        };
        if let Some(c) = f.closure() {
            for inp in &c.inputs {
                push(&inp.example, "(closure)");
            }
        }
        for ex in f.examples() {
            push(ex, "");
        }
    }
    out
}

fn vrl_files(dir: &Path, out: &mut Vec<PathBuf>) {
    let Ok(rd) = std::fs::read_dir(dir) else { return };
    let mut entries: Vec<PathBuf> = rd.filter_map(|e| e.ok().map(|e| e.path())).collect();
    entries.sort();
    for p in entries {
        if p.is_dir() {
            vrl_files(&p, out);
        } else if p.extension().is_some_and(|e| e == "vrl") {
            out.push(p);
        }
    }
}

fn case_from_file(path: &Path, label: String) -> Case {
    let t = vrl::test::Test::from_path(path);
    let content = std::fs::read_to_string(path).unwrap_or_default();
    let mut tags = vec![];
    let mut metadata = None;
    let mut extra_events = vec![];
    for line in content.lines() {
        if let Some(rest) = line.strip_prefix("# event:") {
            if let Ok(v) = serde_json::from_str::<serde_json::Value>(rest.trim()) {
                extra_events.push(EventSpec { value: v, metadata: None, secrets: default_secrets() });
            }
        }
        if let Some(rest) = line.strip_prefix("# tags:") {
            tags.extend(rest.split(',').map(|s| s.trim().to_string()).filter(|s| !s.is_empty()));
        }
        if let Some(rest) = line.strip_prefix("# metadata:") {
            metadata = serde_json::from_str(rest.trim()).ok();
        }
    }
    let value: serde_json::Value = serde_json::to_value(&t.object).unwrap_or(serde_json::Value::Null);
    Case {
        label: label.clone(),
        program: ProgramSpec {
            source: t.source.clone(),
            read_only: t.read_only_paths.iter().map(|(p, r)| (p.to_string(), *r)).collect(),
            precompile: true,
            label,
        },
        event: EventSpec { value, metadata, secrets: default_secrets() },
        deterministic: true,
        skip: t.skip || t.error.is_some(),
        diagnostics: t.check_diagnostics,
        tags,
        extra_events,
    }
}

pub fn corpus_b() -> Vec<Case> {
    // Test::from_path derives names from CARGO_MANIFEST_DIR
    let root = repo_dir().join("lib/tests");
    unsafe { std::env::set_var("CARGO_MANIFEST_DIR", &root) };
    let mut files = vec![];
    vrl_files(&root.join("tests"), &mut files);
    files
        .iter()
        .map(|p| {
            let rel = p.strip_prefix(root.join("tests")).unwrap_or(p).to_string_lossy().to_string();
            case_from_file(p, format!("B:{rel}"))
        })
        .collect()
}

pub fn corpus_c() -> Vec<Case> {
    // Test::from_path wants files under $CARGO_MANIFEST_DIR/tests/
    let root = verif_dir().join("corpus");
    unsafe { std::env::set_var("CARGO_MANIFEST_DIR", &root) };
    let dir = root.join("tests");
    let mut files = vec![];
    vrl_files(&dir, &mut files);
    files
        .iter()
        .map(|p| {
            let rel = p.strip_prefix(&dir).unwrap_or(p).to_string_lossy().to_string();
            case_from_file(p, format!("C:{rel}"))
        })
        .collect()
}

/// Extra events of a corpus-C case: lines `# event: {json}` (value only) in its file.
pub fn extra_events(c: &Case) -> Vec<EventSpec> {
    c.extra_events.clone()
}

/// Position just before the closing parenthesis of the first call of `ident` (or `ident!`) in `src`,
/// and whether the call already has arguments.
fn call_end(src: &str, ident: &str) -> Option<(usize, bool)> {
    let b = src.as_bytes();
    let mut from = 0;
    while let Some(off) = src[from..].find(ident) {
        let start = from + off;
        let before_ok = start == 0 || !(b[start - 1].is_ascii_alphanumeric() || b[start - 1] == b'_');
        let mut i = start + ident.len();
        if i < b.len() && b[i] == b'!' {
            i += 1;
        }
        if before_ok && i < b.len() && b[i] == b'(' {
            let open = i;
            let mut depth = 0i32;
            let mut j = open;
            let mut has_args = false;
            while j < b.len() {
                match b[j] {
                    b'(' | b'[' | b'{' => depth += 1,
                    b')' | b']' | b'}' => {
                        depth -= 1;
                        if depth == 0 {
                            return Some((j, has_args));
                        }
                    }
                    b'"' => {
                        j += 1;
                        while j < b.len() && b[j] != b'"' {
                            if b[j] == b'\\' {
                                j += 1;
                            }
                            j += 1;
                        }
                        has_args = true;
                    }
                    b'\'' => {
                        // s'..', r'..', t'..' literals
                        j += 1;
                        while j < b.len() && b[j] != b'\'' {
                            if b[j] == b'\\' {
                                j += 1;
                            }
                            j += 1;
                        }
                        has_args = true;
                    }
                    c if !c.is_ascii_whitespace() && j > open => has_args = true,
                    _ => {}
                }
                j += 1;
            }
            return None;
        }
        from = start + ident.len();
    }
    None
}

/// Parameter variants of the maintainers' examples: for every optional parameter that an example does not
/// mention, variants that set it - each value of its enum, true/false for booleans, 0/2 for integers.
/// (Misses of seeded changes were always workload misses: a defect behind `count: 2` needs a call with `count: 2`.)
pub fn corpus_a_param_variants() -> Vec<Case> {
    let base = corpus_a();
    let mut out = vec![];
    for f in vrl::stdlib::all() {
        let ident = f.identifier();
        let params = f.parameters();
        for c in base.iter().filter(|c| c.label.starts_with(&format!("A:{ident}:")) || c.label.starts_with(&format!("A:{ident}(closure):"))) {
            if !c.deterministic || c.skip {
                continue;
            }
            let Some((end, has_args)) = call_end(&c.program.source, ident) else { continue };
            for p in params.iter().filter(|p| !p.required) {
                if c.program.source.contains(&format!("{}:", p.keyword)) {
                    continue;
                }
                let mut values: Vec<String> = vec![];
                if let Some(vs) = p.enum_variants {
                    values.extend(vs.iter().map(|v| format!("{:?}", v.value)));
                } else if p.kind == vrl::compiler::value::kind::BOOLEAN {
                    values.extend(["true".to_string(), "false".to_string()]);
                } else if p.kind == vrl::compiler::value::kind::INTEGER {
                    values.extend(["0".to_string(), "2".to_string()]);
                }
                for (vi, v) in values.iter().enumerate() {
                    let source = format!("{}{}{}: {}{}", &c.program.source[..end], if has_args { ", " } else { "" }, p.keyword, v, &c.program.source[end..]);
                    let mut case = c.clone();
                    case.label = format!("P:{}:{}={}#{}", &c.label[2..], p.keyword, vi, v.replace('"', ""));
                    case.program.source = source;
                    case.program.label = case.label.clone();
                    case.tags.push("param-variant".into());
                    out.push(case);
                }
            }
        }
    }
    out
}
