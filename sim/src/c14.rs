//! C14 — evaluation is deterministic and thread-safe (DESIGN 4.1).
//!
//! Every fault-free Compile / Run observed anywhere (any node, any position in any history, any
//! interleaving, any hash seed, any address-space layout, shared or cloned program, fresh or cleared
//! runtime) must equal the golden outcome of the same (source, event, tz, clock) computed in a fresh
//! single-threaded process in which nothing else ran.

use std::collections::BTreeMap;

use crate::check::*;
use crate::corpus::{self, Case};
use crate::driver::{self, WorkerError};
use crate::judge::{died_pub, prog_desc};
use crate::prng::{fnv, mix, Rng};
use crate::sched::Policy;
use crate::spec::*;

type Res = Result<SessionResult, WorkerError>;

pub const T0: i64 = 1_700_000_000;

fn run_key(s: &SessionSpec, w: &WorldSpec, node: &NodeSpec, prog: usize, event: usize) -> String {
    format!(
        "run|{}|{:?}|{}|tz={}|tzenv={:?}|clock={:?}",
        w.programs[prog].source,
        w.programs[prog].read_only,
        serde_json::to_string(&w.events[event]).unwrap(),
        node.tz,
        s.tz_env,
        w.clock
    )
}

fn compile_key(w: &WorldSpec, prog: usize) -> String {
    format!("compile|{}|{:?}", w.programs[prog].source, w.programs[prog].read_only)
}

struct Seen {
    outcome: String,
    ops: Vec<String>,
    context: String,
}

fn context(s: &SessionSpec, wi: usize, w: &WorldSpec, node: Option<(usize, &NodeSpec)>, op: usize, golden: bool) -> String {
    let n = match node {
        Some((i, n)) => format!("node {i} op {op} (hash_seed {}, {}, {})", n.hash_seed, if n.own_clone { "own clone" } else { "shared Arc" }, if n.ref_backing { "TargetValueRef" } else { "TargetValue" }),
        None => format!("precompilation on the coordinator (hash_seed {})", w.coord_hash_seed),
    };
    format!(
        "{}world {} (#{wi} of {} in its session, {} nodes, {:?}, layout_salt {}) {n}",
        if golden { "GOLDEN " } else { "" },
        w.id,
        s.worlds.len(),
        w.nodes.len(),
        w.sched.policy,
        s.layout_salt
    )
}

/// Walk all fault-free compile/run observations of a session in execution-independent order.
fn walk<F: FnMut(String, &str, &[String], String, usize, &WorldSpec)>(s: &SessionSpec, r: &SessionResult, golden: bool, mut f: F) {
    for (wi, (w, wr)) in s.worlds.iter().zip(r.worlds.iter()).enumerate() {
        for (pi, pre) in wr.precompiled.iter().enumerate() {
            if let Some(out) = pre {
                f(compile_key(w, pi), out, &[], context(s, wi, w, None, 0, golden), pi, w);
            }
        }
        for o in &wr.obs {
            let Some(node) = w.nodes.get(o.node) else { continue };
            match node.ops.get(o.op) {
                Some(Op::Compile { prog }) if o.kind == "compile" => {
                    f(compile_key(w, *prog), &o.outcome, &[], context(s, wi, w, Some((o.node, node)), o.op, golden), *prog, w);
                }
                Some(Op::Run { prog, event, faults, .. }) if o.kind == "run" && faults.is_empty() => {
                    f(run_key(s, w, node, *prog, *event), &o.outcome, &o.target_ops, context(s, wi, w, Some((o.node, node)), o.op, golden), *prog, w);
                }
                _ => {}
            }
        }
    }
}

pub fn judge(session: &SessionSpec, res: &Res, reference: &[SessionSpec], ref_res: &[Res]) -> Result<Vec<Violation>, String> {
    let mut table: BTreeMap<String, Seen> = BTreeMap::new();
    for (rs, rr) in reference.iter().zip(ref_res.iter()) {
        match rr {
            Ok(rr) => walk(rs, rr, true, |key, out, ops, ctx, _, _| {
                table.entry(key).or_insert(Seen { outcome: out.to_string(), ops: ops.to_vec(), context: ctx });
            }),
            // a golden that cannot be computed (its process dies even alone) gives no expectation
            Err(_) => {}
        }
    }
    let res = match res {
        Ok(r) => r,
        Err(e) => return died_pub("C14", e, session, true),
    };
    let mut out = vec![];
    for (w, wr) in session.worlds.iter().zip(res.worlds.iter()) {
        for h in &wr.monitor_hits {
            if h.monitor == "residue" || h.monitor == "stuck" {
                out.push(Violation {
                    property: "C14".into(),
                    class: if h.monitor == "residue" { "runtime-residue-after-clear".into() } else { "stuck".into() },
                    at: format!("world {} node {} op {}", w.id, h.node, h.op),
                    program: (0..w.programs.len()).map(|i| prog_desc(w, i)).collect::<Vec<_>>().join("\n---\n"),
                    observed: h.what.clone(),
                    expected: "Runtime::is_empty() after clear(); every node reaches its next yield point".into(),
                    note: String::new(),
                });
            }
        }
    }
    walk(session, res, false, |key, outcome, ops, ctx, prog, w| {
        match table.get(&key) {
            None => {
                table.insert(key, Seen { outcome: outcome.to_string(), ops: ops.to_vec(), context: ctx });
            }
            Some(seen) => {
                if seen.outcome != outcome || (!key.starts_with("compile|") && seen.ops != ops) {
                    let is_compile = key.starts_with("compile|");
                    let (o, e) = if seen.outcome != outcome {
                        first_difference(outcome, &seen.outcome)
                    } else {
                        (format!("target operations {ops:?}"), format!("target operations {:?}", seen.ops))
                    };
                    out.push(Violation {
                        property: "C14".into(),
                        class: if is_compile { "nondeterministic-compile".into() } else { "nondeterministic-run".into() },
                        at: ctx.clone(),
                        program: prog_desc(w, prog),
                        observed: o,
                        expected: e,
                        note: format!("differs from: {}", seen.context),
                    });
                }
            }
        }
    });
    Ok(out)
}

/// Show the region around the first differing line.
fn first_difference(a: &str, b: &str) -> (String, String) {
    let la: Vec<&str> = a.lines().collect();
    let lb: Vec<&str> = b.lines().collect();
    let i = la.iter().zip(lb.iter()).position(|(x, y)| x != y).unwrap_or(la.len().min(lb.len()));
    let lo = i.saturating_sub(1);
    let pick = |l: &Vec<&str>| l.iter().skip(lo).take(4).copied().collect::<Vec<_>>().join("\n");
    (pick(&la), pick(&lb))
}

// ---------------------------------------------------------------------------------------------

#[derive(Clone)]
pub struct Item {
    pub case: Case,
    /// own event first, then extra events
    pub events: Vec<EventSpec>,
}

/// First plain string literal of a source: (start, end, value). `"..."` without escapes or templates, or `s'...'`.
fn first_literal(src: &str) -> Option<(usize, usize, String)> {
    let b = src.as_bytes();
    let mut i = 0;
    while i < b.len() {
        match b[i] {
            b'#' => {
                // comment to end of line
                while i < b.len() && b[i] != b'\n' {
                    i += 1;
                }
            }
            b'"' => {
                let start = i;
                i += 1;
                let mut ok = true;
                while i < b.len() && b[i] != b'"' {
                    if b[i] == b'\\' || b[i] == b'{' {
                        ok = false;
                    }
                    if b[i] == b'\\' {
                        i += 1;
                    }
                    i += 1;
                }
                if i < b.len() && ok && i > start + 1 {
                    return Some((start, i + 1, src[start + 1..i].to_string()));
                }
                i += 1;
            }
            b's' | b'r' | b't' if i + 1 < b.len() && b[i + 1] == b'\'' && (i == 0 || !(b[i - 1].is_ascii_alphanumeric() || b[i - 1] == b'_')) => {
                let kind = b[i];
                let start = i;
                i += 2;
                while i < b.len() && b[i] != b'\'' {
                    if b[i] == b'\\' {
                        i += 1;
                    }
                    i += 1;
                }
                if kind == b's' && i < b.len() && i > start + 2 && !src[start + 2..i].contains('\\') {
                    return Some((start, i + 1, src[start + 2..i].to_string()));
                }
                i += 1;
            }
            _ => i += 1,
        }
    }
    None
}

/// First literal of a source that can be stored in the event and read back with its type known to the compiler:
/// `"..."` (no escapes/templates), `s'...'`, `t'...'`. Returns (start, end).
fn first_storable_literal(src: &str) -> Option<(usize, usize)> {
    storable_literal_from(src, 0)
}

/// Bare integer / float / boolean literals outside strings, as (start, end).
fn scalar_literals(src: &str) -> Vec<(usize, usize)> {
    let b = src.as_bytes();
    let mut out = vec![];
    let mut i = 0;
    while i < b.len() {
        match b[i] {
            b'#' => {
                while i < b.len() && b[i] != b'\n' {
                    i += 1;
                }
            }
            b'"' => {
                i += 1;
                while i < b.len() && b[i] != b'"' {
                    if b[i] == b'\\' {
                        i += 1;
                    }
                    i += 1;
                }
                i += 1;
            }
            b'\'' => {
                i += 1;
                while i < b.len() && b[i] != b'\'' {
                    if b[i] == b'\\' {
                        i += 1;
                    }
                    i += 1;
                }
                i += 1;
            }
            c if c.is_ascii_digit() && (i == 0 || !(b[i - 1].is_ascii_alphanumeric() || b[i - 1] == b'_' || b[i - 1] == b'.' || b[i - 1] == b'[')) => {
                let start = i;
                while i < b.len() && (b[i].is_ascii_digit() || b[i] == b'.' || b[i] == b'_') {
                    i += 1;
                }
                if i < b.len() && (b[i].is_ascii_alphabetic() || b[i] == b']') {
                    continue;
                }
                out.push((start, i));
            }
            b't' | b'f' if (i == 0 || !(b[i - 1].is_ascii_alphanumeric() || b[i - 1] == b'_' || b[i - 1] == b'.')) => {
                let word = if src[i..].starts_with("true") { 4 } else if src[i..].starts_with("false") { 5 } else { 0 };
                if word > 0 && !src[i + word..].starts_with(|c: char| c.is_ascii_alphanumeric() || c == '_' || c == ':' || c == '\'') {
                    out.push((i, i + word));
                    i += word;
                } else {
                    i += 1;
                }
            }
            _ => i += 1,
        }
    }
    out
}

fn storable_literal_from(src: &str, from: usize) -> Option<(usize, usize)> {
    let b = src.as_bytes();
    let mut i = from;
    while i < b.len() {
        match b[i] {
            b'#' => {
                while i < b.len() && b[i] != b'\n' {
                    i += 1;
                }
            }
            b'"' => {
                let start = i;
                i += 1;
                let mut ok = true;
                while i < b.len() && b[i] != b'"' {
                    if b[i] == b'\\' || b[i] == b'{' {
                        ok = false;
                    }
                    if b[i] == b'\\' {
                        i += 1;
                    }
                    i += 1;
                }
                if i < b.len() && ok && i > start + 1 {
                    return Some((start, i + 1));
                }
                i += 1;
            }
            b's' | b'r' | b't' if i + 1 < b.len() && b[i + 1] == b'\'' && (i == 0 || !(b[i - 1].is_ascii_alphanumeric() || b[i - 1] == b'_')) => {
                let kind = b[i];
                let start = i;
                i += 2;
                while i < b.len() && b[i] != b'\'' {
                    if b[i] == b'\\' {
                        i += 1;
                    }
                    i += 1;
                }
                if (kind == b's' || kind == b't') && i < b.len() && i > start + 2 {
                    return Some((start, i + 1));
                }
                i += 1;
            }
            _ => i += 1,
        }
    }
    None
}

/// "Typed lift": `.vin = <literal>` followed by the example with that literal replaced by `.vin`. The compiler then
/// knows the exact type of `.vin`, so the function receives it without a runtime check; only a target that rejects the
/// write or the read can make the value differ from the type (workload of C17: "compiler guarantees" that `.expect`).
pub fn typed_lifted(cases: &[Case]) -> Vec<Case> {
    let mut out = vec![];
    for c in cases {
        if !c.label.starts_with("A:") || c.skip {
            continue;
        }
        // every string / timestamp literal (up to 5) and every bare scalar literal (up to 4), one case each
        let mut spots: Vec<(usize, usize)> = vec![];
        let mut from = 0;
        while let Some((a, b)) = storable_literal_from(&c.program.source, from) {
            spots.push((a, b));
            from = b;
            if spots.len() >= 5 {
                break;
            }
        }
        spots.extend(scalar_literals(&c.program.source).into_iter().take(4));
        for (k, (a, b)) in spots.into_iter().enumerate() {
            let lit = &c.program.source[a..b];
            let mut case = c.clone();
            case.label = format!("T:{}#{k}", &c.label[2..]);
            case.program.source = format!(".vin = {lit}\n{}.vin{}", &c.program.source[..a], &c.program.source[b..]);
            case.program.label = case.label.clone();
            case.tags.push("typed-lift".into());
            out.push(case);
        }
    }
    out
}

/// "Lift" the first string literal of each maintainers' example into the event (`string!(.vin)`), and give the
/// program the literals of the other examples of the same function (and a reversed one) as further events. This is
/// the workload for input-dependent shared state: memos, caches and scratch buffers inside a function expression
/// only go wrong when the same compiled program sees different inputs.
fn lifted(cases: &[Case]) -> Vec<Case> {
    let fn_of = |label: &str| label.split(':').nth(1).unwrap_or("").to_string();
    let lits: Vec<Option<(usize, usize, String)>> = cases.iter().map(|c| first_literal(&c.program.source)).collect();
    let mut out = vec![];
    for (i, c) in cases.iter().enumerate() {
        if !c.label.starts_with("A:") || !c.comparable() {
            continue;
        }
        let Some((a, b, lit)) = &lits[i] else { continue };
        if c.event.value.as_object().is_some_and(|o| o.contains_key("vin")) {
            continue;
        }
        let source = format!("{}string!(.vin){}", &c.program.source[..*a], &c.program.source[*b..]);
        let mk = |v: &str| {
            let mut ev = c.event.clone();
            if let Some(o) = ev.value.as_object_mut() {
                o.insert("vin".into(), serde_json::Value::String(v.to_string()));
            } else {
                ev.value = serde_json::json!({ "vin": v });
            }
            ev
        };
        let mut others: Vec<String> = vec![];
        for (j, d) in cases.iter().enumerate() {
            if j != i && fn_of(&d.label) == fn_of(&c.label) {
                if let Some((_, _, l)) = &lits[j] {
                    if l != lit && !others.contains(l) && others.is_empty() {
                        others.push(l.clone());
                    }
                }
            }
        }
        others.push(lit.chars().rev().collect());
        let mut case = c.clone();
        case.label = format!("L:{}", &c.label[2..]);
        case.program.source = source;
        case.program.label = case.label.clone();
        case.event = mk(lit);
        case.extra_events = others.iter().filter(|o| *o != lit).map(|o| mk(o)).collect();
        case.tags.push("lifted".into());
        out.push(case);
    }
    out
}

pub fn items(include_b: bool) -> Vec<Item> {
    let mut cases = corpus::corpus_a();
    // parameter variants are examples too (their labels are rewritten to A:.. so that they get lifted as well)
    // the quick tier takes a seeded 40 % of the parameter variants (each costs fresh golden processes)
    let quick = QUICK_TIER.load(std::sync::atomic::Ordering::SeqCst);
    let vseed = std::env::var("VERIF_SEED").ok().and_then(|s| s.trim().parse::<u64>().ok()).unwrap_or(1);
    let variants: Vec<Case> = corpus::corpus_a_param_variants()
        .into_iter()
        .filter(|c| !quick || crate::prng::mix(vseed, fnv(c.label.as_bytes())) % 10 < 4)
        .map(|mut c| {
            c.label = format!("A:{}", &c.label[2..]);
            c
        })
        .collect();
    cases.extend(variants);
    let lifted_cases = lifted(&cases);
    cases.extend(lifted_cases);
    if include_b {
        cases.extend(corpus::corpus_b());
    }
    cases.extend(corpus::corpus_c());
    let mut out: Vec<Item> = vec![];
    // debugging aid: VERIF_ONLY=<label prefix> restricts the workload (never set by registered commands)
    let only = std::env::var("VERIF_ONLY").ok();
    for c in cases {
        if !c.comparable() {
            continue;
        }
        if only.as_ref().is_some_and(|o| !c.label.starts_with(o.as_str())) {
            continue;
        }
        // C15-only shapes carry read-only sets that reject nothing interesting here; keep them, they are cheap
        let mut events = vec![c.event.clone()];
        events.extend(corpus::extra_events(&c));
        // event variants (same shape, different leaves): give input-dependent shared state (memos, caches,
        // scratch buffers) something to get wrong when the same program sees another event
        if events.len() == 1 && c.event.value.as_object().is_some_and(|o| !o.is_empty()) {
            for mode in 0..2 {
                let v = vary(&c.event.value, mode);
                if v != c.event.value {
                    events.push(EventSpec { value: v, metadata: c.event.metadata.clone(), secrets: c.event.secrets.clone() });
                }
            }
        }
        out.push(Item { case: c, events });
    }
    out
}

/// Deterministic variant of a JSON event: mode 0 reverses strings and bumps numbers (lengths preserved),
/// mode 1 swaps letter case and reverses arrays.
fn vary(v: &serde_json::Value, mode: u32) -> serde_json::Value {
    use serde_json::Value as J;
    match v {
        J::String(s) => {
            if mode == 0 {
                J::String(s.chars().rev().collect())
            } else {
                J::String(s.chars().map(|c| if c.is_lowercase() { c.to_ascii_uppercase() } else { c.to_ascii_lowercase() }).collect())
            }
        }
        J::Number(n) => {
            if mode == 0 {
                if let Some(i) = n.as_i64() { J::from(i.wrapping_add(1)) } else { v.clone() }
            } else {
                v.clone()
            }
        }
        J::Array(a) => {
            let mut out: Vec<J> = a.iter().map(|x| vary(x, mode)).collect();
            if mode == 1 {
                out.reverse();
            }
            J::Array(out)
        }
        J::Object(o) => J::Object(o.iter().map(|(k, x)| (k.clone(), vary(x, mode))).collect()),
        other => other.clone(),
    }
}

pub fn golden_session(item: &Item, ev: usize) -> SessionSpec {
    let mut p = item.case.program.clone();
    p.precompile = false;
    SessionSpec {
        seed: 0,
        tz_env: None,
        layout_salt: 0,
        worlds: vec![WorldSpec {
            id: "golden".into(),
            clock: Some(T0),
            coord_hash_seed: 0,
            programs: vec![p],
            events: vec![item.events[ev].clone()],
            nodes: vec![NodeSpec {
                tz: "UTC".into(),
                hash_seed: 0,
                own_clone: false,
                ref_backing: false,
                ops: vec![Op::Compile { prog: 0 }, Op::Run { prog: 0, event: 0, fresh_runtime: true, faults: FaultPlan::default(), tag: "golden".into() }],
            }],
            sched: SchedSpec { policy: Policy::Serial, seed: 0, max_yields: 1_000_000 },
            files: vec![],
            monitors: vec![],
            fresh_threads: true,
        }],
    }
}

pub struct Goldens {
    /// (item, event) -> index into specs/results
    pub index: BTreeMap<(usize, usize), usize>,
    pub specs: Vec<SessionSpec>,
    pub results: Vec<Res>,
}

pub fn compute_goldens(ctx: &Ctx, items: &[Item], ev: &mut Evidence) -> Goldens {
    let mut index = BTreeMap::new();
    let mut specs = vec![];
    for (i, it) in items.iter().enumerate() {
        for e in 0..it.events.len() {
            index.insert((i, e), specs.len());
            specs.push(golden_session(it, e));
        }
    }
    let results = driver::run_all(&specs, ctx.par, ctx.session_timeout, |_, _| {});
    ev.sessions += specs.len() as u64;
    let died = results.iter().filter(|r| r.is_err()).count();
    ev.extra.insert("golden_sessions".into(), (specs.len() as u64).into());
    ev.extra.insert("golden_sessions_whose_process_died".into(), (died as u64).into());
    Goldens { index, specs, results }
}

fn refs_for(g: &Goldens, used: &[(usize, usize)]) -> (Vec<SessionSpec>, Vec<Res>) {
    let mut specs = vec![];
    let mut results = vec![];
    let mut seen = std::collections::BTreeSet::new();
    for u in used {
        if let Some(ix) = g.index.get(u) {
            if seen.insert(*ix) {
                specs.push(g.specs[*ix].clone());
                results.push(g.results[*ix].clone());
            }
        }
    }
    (specs, results)
}

/// Judge a batch of sessions against the goldens of the (item, event) pairs each uses.
fn judge_batch(ctx: &Ctx, sessions: &[SessionSpec], used: &[Vec<(usize, usize)>], g: &Goldens, rep: &mut Reporter, ev: &mut Evidence) -> Vec<Option<SessionResult>> {
    let results = driver::run_all(sessions, ctx.par, ctx.session_timeout, |_, _| {});
    let mut out = vec![];
    for ((spec, res), used) in sessions.iter().zip(results.into_iter()).zip(used.iter()) {
        ev.sessions += 1;
        match &res {
            Ok(r) => {
                for w in &r.worlds {
                    ev.absorb_world(w);
                }
            }
            Err(_) => ev.worker_errors += 1,
        }
        let (rs, rr) = refs_for(g, used);
        match judge(spec, &res, &rs, &rr) {
            Ok(vs) => {
                for v in vs {
                    // history matters for C14: keep the whole session; the minimiser drops worlds first
                    rep.candidate(v, "c14", spec.clone(), rs.clone());
                }
            }
            Err(e) => {
                eprintln!("HARNESS: {e}");
                ev.worker_errors += 1;
            }
        }
        out.push(res.ok());
    }
    out
}

pub fn run(ctx: &Ctx) -> ! {
    let mut ev = Evidence::default();
    let mut rep = Reporter::new(ctx);
    let items = items(true);
    ev.extra.insert("corpus_cases_comparable".into(), (items.len() as u64).into());
    let g = compute_goldens(ctx, &items, &mut ev);
    println!("goldens: {} sessions ({:.1}s)", g.specs.len(), ctx.start.elapsed().as_secs_f64());

    // --- hash-seed / layout sweep: S fresh one-world sessions per (case, event) ---------------------
    // plain cases get a few seeds; hash-order amplifiers (corpus C, tag "hash") get many
    let (s_plain, s_hash) = if ctx.quick() { (2, 12) } else { (12, 96) };
    let mut rng = Rng::new(mix(ctx.seed, 0xC14));
    let mut sweep_hash: (Vec<SessionSpec>, Vec<Vec<(usize, usize)>>) = (vec![], vec![]);
    let mut sweep_plain: (Vec<SessionSpec>, Vec<Vec<(usize, usize)>>) = (vec![], vec![]);
    for (i, it) in items.iter().enumerate() {
        for e in 0..it.events.len() {
            let is_hash = it.case.tags.iter().any(|t| t == "hash");
            // lifted examples repeat code the plain examples already sweep; the quick tier skips them here
            let is_lifted = it.case.tags.iter().any(|t| t == "lifted" || t == "param-variant");
            let s_sweep = if is_hash { s_hash } else if is_lifted && ctx.quick() { 0 } else { s_plain };
            for k in 0..s_sweep {
                let mut s = golden_session(it, e);
                s.seed = ctx.seed;
                s.layout_salt = (rng.next_u64() % 4096) as u32;
                let w = &mut s.worlds[0];
                w.id = format!("sweep-{i}-{e}-{k}");
                w.coord_hash_seed = rng.next_u64();
                w.nodes[0].hash_seed = rng.next_u64();
                w.nodes[0].ref_backing = k % 2 == 1;
                // a third of the sweep compiles on the coordinator (precompile) instead of on the node
                if k % 3 == 0 {
                    w.programs[0].precompile = true;
                    w.nodes[0].ops.remove(0);
                }
                let dst = if is_hash { &mut sweep_hash } else { &mut sweep_plain };
                dst.0.push(s);
                dst.1.push(vec![(i, e)]);
            }
        }
    }
    let mut sweep_done = 0usize;

    // --- concurrent / history worlds ------------------------------------------------------------------
    let n_sessions = if ctx.quick() { 1_600 } else { 40_000 };
    let max_nodes = if ctx.quick() { 4 } else { 8 };
    let max_worlds = if ctx.quick() { 6 } else { 24 };
    // items that touch process-global state or shared pools get extra weight
    let hot: Vec<usize> = items.iter().enumerate().filter(|(_, it)| it.case.tags.iter().any(|t| t == "global" || t == "hash" || t == "early" || t == "pool")).map(|(i, _)| i).collect();
    let mut samples = vec![];
    let mut done = 0;
    let mut batch_no = 0;
    let mut rng2 = Rng::new(mix(ctx.seed, 0xC14_2));
    let mut concurrent_batch = |ctx: &Ctx, rep: &mut Reporter, ev: &mut Evidence, done: &mut usize, batch_no: &mut usize, samples: &mut Vec<serde_json::Value>| {
        let chunk = (n_sessions - *done).min(800);
        let mut sessions = vec![];
        let mut used = vec![];
        for j in 0..chunk {
            let mut r = rng2.derive((*batch_no * 1_000_003 + j) as u64);
            let (s, u) = gen_session(&mut r, ctx.seed, &items, &hot, max_nodes, max_worlds, format!("b{batch_no}s{j}"));
            sessions.push(s);
            used.push(u);
        }
        let results = judge_batch(ctx, &sessions, &used, &g, rep, ev);
        for (s, r) in sessions.iter().zip(results.iter()) {
            let Some(r) = r else { continue };
            for (w, wr) in s.worlds.iter().zip(r.worlds.iter()) {
                ev.evaluations += 1;
                if wr.sched.switches_inside_runs > 0 {
                    let fresh = ev.distinct.insert(wr.sched.interleaving_digest ^ fnv(w.programs.iter().map(|p| p.source.as_str()).collect::<Vec<_>>().join("|").as_bytes()));
                    if fresh && samples.len() < 3 && (samples.is_empty() || (wr.sched.switches_same_program > 0 && ev.distinct.len() % 101 == 1)) {
                        samples.push(serde_json::json!({
                            "world": w.id, "programs": w.programs.iter().map(|p| p.label.clone()).collect::<Vec<_>>(),
                            "nodes": w.nodes.iter().map(|n| serde_json::json!({"hash_seed": n.hash_seed, "own_clone": n.own_clone, "ops": n.ops.iter().map(|o| serde_json::to_value(o).unwrap()).collect::<Vec<_>>() })).collect::<Vec<_>>(),
                            "policy": w.sched.policy, "switches": wr.sched.switches.len(), "switches_inside_runs_of_same_program": wr.sched.switches_same_program, "yields": wr.sched.yields,
                        }));
                    }
                }
            }
        }
        *done += chunk;
        *batch_no += 1;
    };

    // --- contention worlds: for every program with >= 2 events, 2-3 nodes share the compiled program and run it on
    // alternating events (input-dependent shared state inside a function expression needs exactly this) -------------
    let k_contention = if ctx.quick() { 3 } else { 24 };
    let mut contention: (Vec<SessionSpec>, Vec<Vec<(usize, usize)>>) = (vec![], vec![]);
    {
        // programs the compiler rejects (many lifted ones: the literal had to be a literal) add nothing here
        let rejected = |i: usize| -> bool {
            g.index.get(&(i, 0)).and_then(|ix| g.results[*ix].as_ref().ok()).is_some_and(|r| r.worlds.first().is_some_and(|w| w.obs.iter().any(|o| o.outcome.starts_with("NOPROGRAM"))))
        };
        let multi: Vec<usize> = (0..items.len()).filter(|i| items[*i].events.len() >= 2 && !rejected(*i)).collect();
        let mut worlds: Vec<(WorldSpec, Vec<(usize, usize)>)> = vec![];
        for k in 0..k_contention {
            for &i in &multi {
                let it = &items[i];
                let n_nodes = 2 + rng.below(2);
                let ne = it.events.len();
                let nodes = (0..n_nodes)
                    .map(|n| NodeSpec {
                        tz: "UTC".into(),
                        hash_seed: 1,
                        own_clone: false,
                        ref_backing: rng.chance(0.5),
                        ops: (0..6).map(|r| Op::Run { prog: 0, event: (n + r + rng.below(2)) % ne, fresh_runtime: true, faults: FaultPlan::default(), tag: String::new() }).collect(),
                    })
                    .collect();
                worlds.push((
                    WorldSpec {
                        id: format!("cont-{k}-{i}"),
                        clock: Some(T0),
                        coord_hash_seed: 1,
                        programs: vec![it.case.program.clone()],
                        events: it.events.clone(),
                        nodes,
                        sched: SchedSpec { policy: Policy::Random { p: *rng.pick(&[0.1, 0.3, 0.5, 0.7]) }, seed: rng.next_u64(), max_yields: 50_000 },
                        files: vec![],
                        monitors: vec![],
                        fresh_threads: false,
                    },
                    (0..ne).map(|e| (i, e)).collect(),
                ));
            }
        }
        for chunk in worlds.chunks(40) {
            contention.0.push(SessionSpec { seed: ctx.seed, tz_env: None, layout_salt: 0, worlds: chunk.iter().map(|(w, _)| w.clone()).collect() });
            contention.1.push(chunk.iter().flat_map(|(_, u)| u.iter().copied()).collect());
        }
    }

    // --- long-history worlds: one thread feeds one shared program hundreds of DISTINCT inputs and then the first ones
    // again (bounded caches, thread-local tables, counters that change behaviour after N calls, amortised rebuilds) ----
    let mut long_history: (Vec<SessionSpec>, Vec<Vec<(usize, usize)>>) = (vec![], vec![]);
    {
        let n_inputs = if ctx.quick() { 300 } else { 600 };
        let cands: Vec<usize> = (0..items.len())
            .filter(|i| items[*i].case.tags.iter().any(|t| t == "lifted") && items[*i].events[0].value.get("vin").and_then(|v| v.as_str()).is_some())
            .filter(|i| g.index.get(&(*i, 0)).and_then(|ix| g.results[*ix].as_ref().ok()).is_some_and(|r| r.worlds.first().is_some_and(|w| !w.obs.iter().any(|o| o.outcome.starts_with("NOPROGRAM")))))
            .filter(|i| !ctx.quick() || mix(ctx.seed, *i as u64) % 2 == 0)
            .collect();
        let mut worlds = vec![];
        for &i in &cands {
            let it = &items[i];
            let base = it.events[0].value.get("vin").and_then(|v| v.as_str()).unwrap_or("").to_string();
            let mut events = vec![];
            for k in 0..n_inputs {
                let mut e = it.events[0].clone();
                // distinct inputs that keep the shape of the original literal: a numeric run in it is renumbered,
                // otherwise a suffix is added
                let digits: Option<(usize, usize)> = base.char_indices().find(|(_, c)| c.is_ascii_digit()).map(|(a, _)| {
                    let b = base[a..].find(|c: char| !c.is_ascii_digit()).map(|x| a + x).unwrap_or(base.len());
                    (a, b)
                });
                let v = match digits {
                    Some((a, b)) if k > 0 => format!("{}{}{}", &base[..a], k, &base[b..]),
                    _ if k > 0 => format!("{base}{k}"),
                    _ => base.clone(),
                };
                if let Some(o) = e.value.as_object_mut() {
                    o.insert("vin".into(), serde_json::Value::String(v));
                }
                events.push(e);
            }
            let mut ops: Vec<Op> = (0..n_inputs).map(|e| Op::Run { prog: 0, event: e, fresh_runtime: true, faults: FaultPlan::default(), tag: String::new() }).collect();
            for e in (0..12).chain(n_inputs - 4..n_inputs) {
                ops.push(Op::Run { prog: 0, event: e, fresh_runtime: true, faults: FaultPlan::default(), tag: String::new() });
            }
            worlds.push(WorldSpec {
                id: format!("long-{i}"),
                clock: Some(T0),
                coord_hash_seed: 1,
                programs: vec![it.case.program.clone()],
                events,
                nodes: vec![NodeSpec { tz: "UTC".into(), hash_seed: 1, own_clone: false, ref_backing: false, ops }],
                sched: SchedSpec { policy: Policy::Serial, seed: 0, max_yields: 10_000_000 },
                files: vec![],
                monitors: vec![],
                fresh_threads: false,
            });
        }
        for chunk in worlds.chunks(4) {
            long_history.0.push(SessionSpec { seed: ctx.seed, tz_env: None, layout_salt: 0, worlds: chunk.to_vec() });
            // the golden of the original input is the only external expectation; the rest is self-consistency
            long_history.1.push(chunk.iter().map(|w| (w.id[5..].parse::<usize>().unwrap(), 0)).collect());
        }
    }

    // order: the parts that must never be skipped first (amplifier sweep, one concurrent batch), then the rest
    // in deadline-checked chunks, so that a slow machine shortens the exploration but never empties a phase
    let _ = judge_batch(ctx, &sweep_hash.0, &sweep_hash.1, &g, &mut rep, &mut ev);
    sweep_done += sweep_hash.0.len();
    println!("amplifier sweep: {} sessions ({:.1}s)", sweep_hash.0.len(), ctx.start.elapsed().as_secs_f64());
    {
        let before = ev.worlds;
        let _ = judge_batch(ctx, &contention.0, &contention.1, &g, &mut rep, &mut ev);
        ev.evaluations += ev.worlds - before;
        ev.extra.insert("contention_worlds".into(), (ev.worlds - before).into());
        println!("contention worlds: {} ({:.1}s)", ev.worlds - before, ctx.start.elapsed().as_secs_f64());
    }
    {
        let before = ev.worlds;
        let _ = judge_batch(ctx, &long_history.0, &long_history.1, &g, &mut rep, &mut ev);
        ev.evaluations += ev.worlds - before;
        ev.extra.insert("long_history_worlds".into(), (ev.worlds - before).into());
        println!("long-history worlds: {} ({:.1}s)", ev.worlds - before, ctx.start.elapsed().as_secs_f64());
    }
    concurrent_batch(ctx, &mut rep, &mut ev, &mut done, &mut batch_no, &mut samples);
    println!("first concurrent batch: {done} sessions ({:.1}s)", ctx.start.elapsed().as_secs_f64());
    // the rest alternates between the plain sweep and further concurrent/history batches, so that neither starves
    // the other when the budget runs out
    let mut plain_pos = 0;
    while (plain_pos < sweep_plain.0.len() || done < n_sessions) && !ctx.out_of_time() {
        if plain_pos < sweep_plain.0.len() {
            let end = (plain_pos + 1200).min(sweep_plain.0.len());
            let _ = judge_batch(ctx, &sweep_plain.0[plain_pos..end], &sweep_plain.1[plain_pos..end], &g, &mut rep, &mut ev);
            sweep_done += end - plain_pos;
            plain_pos = end;
        }
        if done < n_sessions && !ctx.out_of_time() {
            concurrent_batch(ctx, &mut rep, &mut ev, &mut done, &mut batch_no, &mut samples);
        }
    }
    println!("plain sweep: {plain_pos} of {} sessions, concurrent/history sessions: {done} ({:.1}s)", sweep_plain.0.len(), ctx.start.elapsed().as_secs_f64());
    let sweep_sessions = sweep_done;
    ev.extra.insert("hash_sweep".into(), serde_json::json!({"seeds_per_plain_case": s_plain, "seeds_per_hash_amplifier_case": s_hash, "sessions_executed": sweep_done, "sessions_planned": sweep_hash.0.len() + sweep_plain.0.len()}));
    ev.extra.insert("concurrent_history_sessions".into(), (done as u64).into());
    ev.evaluations += sweep_sessions as u64;
    ev.samples = samples;
    ev.rule = "evaluations = hash/layout-sweep sessions (one fresh process per (case, event, hash seed)) + concurrent/history worlds executed. Worlds: 1..N caller threads share Arc<Program>s (or hold clones), run corpus programs on their events with fresh or cleared runtimes, compile / clone / drop programs in between, under seeded schedules (random p in {0.02,0.1,0.3,0.7}, PCT d<=3, serial permutation); several worlds follow each other in one process so that process-global residue is part of the history. Oracle: every fault-free Compile/Run observation equals the golden outcome of the same (source, event, tz, clock) computed alone in a fresh process, and all observations with the same key agree with each other. distinct_nontrivial = distinct (programs, interleaving digest) pairs of worlds with at least one context switch while two nodes were inside a Run.".into();
    ev.assumptions = vec![
        "code between two yield points (Expr::resolve, Target calls, the schema-cache miss window) runs atomically: a data race wholly inside one stdlib function or dependency is invisible to this technique".into(),
        "getrandom(2) interposition + ASLR off make hash iteration orders a function of the seed; raw SYS_getrandom users (getrandom 0.2: only the exempt network functions) are not controlled".into(),
        "programs mentioning exempt functions (now, random_*, uuid_v4/v7, get_hostname, get_env_var, network lookups, get_timezone_name) and examples flagged non-deterministic are excluded from the oracle".into(),
    ];
    let mut verdict = rep.finish(ctx);
    // a worker that could not run (spawn failure, wall-clock limit, garbled output) is a harness error, not a pass
    verdict.harness_errors += ev.worker_errors as u32;
    ev.write(ctx, "exploration", verdict.violations, &verdict.known_seen);
    exit_with(&verdict)
}

fn pick_item(r: &mut Rng, items: &[Item], hot: &[usize]) -> usize {
    if !hot.is_empty() && r.chance(0.35) { hot[r.below(hot.len())] } else { r.below(items.len()) }
}

pub fn gen_session(r: &mut Rng, seed: u64, items: &[Item], hot: &[usize], max_nodes: usize, max_worlds: usize, id: String) -> (SessionSpec, Vec<(usize, usize)>) {
    let n_worlds = r.range(1, max_worlds);
    let mut worlds = vec![];
    let mut used = vec![];
    // a session tends to revisit a small pool of items so that history (global residue) has a chance to matter
    // ... and neighbours in the corpus order are other examples of the same function (same code, other arguments)
    let mut pool: Vec<usize> = vec![];
    for _ in 0..r.range(1, 3) {
        let base = pick_item(r, items, hot);
        pool.push(base);
        if r.chance(0.6) {
            for d in 1..=r.range(1, 3) {
                if r.chance(0.5) && base + d < items.len() {
                    pool.push(base + d);
                } else if base >= d {
                    pool.push(base - d);
                }
            }
        }
    }
    for wi in 0..n_worlds {
        let n_nodes = r.range(1, max_nodes);
        let n_progs = if r.chance(0.5) { 1 } else { r.range(1, 3) };
        let mut prog_items = vec![];
        for _ in 0..n_progs {
            prog_items.push(if r.chance(0.7) { pool[r.below(pool.len())] } else { pick_item(r, items, hot) });
        }
        let mut programs = vec![];
        let mut events = vec![];
        let mut ev_index: Vec<Vec<usize>> = vec![];
        for it in &prog_items {
            let mut p = items[*it].case.program.clone();
            p.precompile = r.chance(0.8);
            programs.push(p);
            let mut ixs = vec![];
            for (e, evs) in items[*it].events.iter().enumerate() {
                ixs.push(events.len());
                events.push(evs.clone());
                used.push((*it, e));
            }
            ev_index.push(ixs);
        }
        let mut nodes = vec![];
        for _ in 0..n_nodes {
            let n_ops = r.range(2, 10);
            let mut ops = vec![];
            for _ in 0..n_ops {
                let p = r.below(n_progs);
                match r.below(20) {
                    0..=11 => {
                        let e = ev_index[p][r.below(ev_index[p].len())];
                        let fresh = r.chance(0.4);
                        if !fresh {
                            ops.push(Op::Clear);
                        }
                        ops.push(Op::Run { prog: p, event: e, fresh_runtime: fresh, faults: FaultPlan::default(), tag: String::new() });
                    }
                    12..=14 => ops.push(Op::Compile { prog: p }),
                    15..=16 => ops.push(Op::CloneProgram { prog: p }),
                    17 => ops.push(Op::DropProgram { prog: p }),
                    _ => ops.push(Op::Clear),
                }
            }
            nodes.push(NodeSpec { tz: "UTC".into(), hash_seed: r.next_u64(), own_clone: r.chance(0.25), ref_backing: r.chance(0.5), ops });
        }
        let policy = match r.below(10) {
            0..=5 => Policy::Random { p: *r.pick(&[0.02, 0.1, 0.3, 0.7]) },
            6..=7 => Policy::Pct { d: r.range(1, 3) as u32, k: 400 },
            _ => Policy::Serial,
        };
        worlds.push(WorldSpec {
            id: format!("{id}w{wi}"),
            clock: Some(T0),
            coord_hash_seed: r.next_u64(),
            programs,
            events,
            nodes,
            sched: SchedSpec { policy, seed: r.next_u64(), max_yields: 50_000 },
            files: vec![],
            monitors: vec![],
            fresh_threads: true,
        });
    }
    (SessionSpec { seed, tz_env: None, layout_salt: (r.next_u64() % 4096) as u32, worlds }, used)
}
