use crate::check::Violation;
use crate::driver::WorkerError;
use crate::spec::*;
type Res = Result<SessionResult, WorkerError>;
pub fn judge(_s: &SessionSpec, _r: &Res, _rs: Option<&SessionSpec>, _rr: Option<&Res>) -> Result<Vec<Violation>, String> { Ok(vec![]) }
