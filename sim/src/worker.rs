//! Executes one session (a list of worlds, back to back, in this process).

use std::collections::BTreeMap;
use std::panic::{catch_unwind, AssertUnwindSafe};
use std::path::{Path, PathBuf};
use std::sync::atomic::{AtomicBool, AtomicI64, Ordering};
use std::sync::{Arc, Mutex, OnceLock};
use std::time::Duration;

use chrono::{DateTime, TimeZone as _, Utc};
use vrl::compiler::runtime::Runtime;
use vrl::compiler::state::ExternalEnv;
use vrl::compiler::{CompileConfig, Function, Program, TargetValue, TargetValueRef, TimeZone};
use vrl::path::OwnedTargetPath;
use vrl::value::Value;

use crate::entropy;
use crate::prng::fnv_add;
use crate::render;
use crate::sched::{self, Sched};
use crate::spec::*;
use crate::target::{secrets_from, Backing, Monitors, Reported, SimTarget};

static CLOCK_SET: AtomicBool = AtomicBool::new(false);
static CLOCK: AtomicI64 = AtomicI64::new(0);

fn clock_hook() -> Option<DateTime<Utc>> {
    if CLOCK_SET.load(Ordering::SeqCst) {
        Utc.timestamp_opt(CLOCK.load(Ordering::SeqCst), 0).single()
    } else {
        None
    }
}

pub fn functions() -> &'static [Box<dyn Function>] {
    static FNS: OnceLock<Vec<Box<dyn Function>>> = OnceLock::new();
    FNS.get_or_init(vrl::stdlib::all)
}

thread_local! {
    static LAST_PANIC: std::cell::RefCell<String> = const { std::cell::RefCell::new(String::new()) };
}

pub fn install_hooks() {
    vrl::verif::set_yield_hook(sched::yield_point);
    vrl::verif::set_blocked_hook(sched::yield_blocked);
    vrl::verif::set_clock_hook(clock_hook);
    std::panic::set_hook(Box::new(|info| {
        let loc = info.location().map(|l| format!("{}:{}", l.file(), l.line())).unwrap_or_default();
        let msg = if let Some(s) = info.payload().downcast_ref::<&str>() {
            (*s).to_string()
        } else if let Some(s) = info.payload().downcast_ref::<String>() {
            s.clone()
        } else {
            "<non-string panic payload>".to_string()
        };
        LAST_PANIC.with(|p| *p.borrow_mut() = format!("{msg} @ {loc}"));
    }));
}

fn take_panic() -> String {
    LAST_PANIC.with(|p| std::mem::take(&mut *p.borrow_mut()))
}

pub fn verif_dir() -> PathBuf {
    std::env::var_os("VERIF_DIR").map(PathBuf::from).unwrap_or_else(|| PathBuf::from("/verif"))
}

pub fn repo_dir() -> PathBuf {
    std::env::var_os("VERIF_REPO").map(PathBuf::from).unwrap_or_else(|| PathBuf::from("/repo"))
}

pub struct Scratch {
    pub dir: PathBuf,
}

impl Scratch {
    pub fn new() -> Self {
        // fixed-length name so that path lengths (and hence diagnostics, allocations) do not vary
        let dir = verif_dir().join("run").join(format!("s{:010}", std::process::id()));
        let _ = std::fs::remove_dir_all(&dir);
        std::fs::create_dir_all(&dir).expect("create scratch dir");
        Scratch { dir }
    }
    pub fn subst(&self, s: &str) -> String {
        s.replace("@DIR@", self.dir.to_str().unwrap()).replace("@REPO@", repo_dir().to_str().unwrap())
    }
    pub fn unsubst(&self, s: &str) -> String {
        // panic locations name the instrumented copy the simulator was built from
        s.replace(self.dir.to_str().unwrap(), "@DIR@")
            .replace(repo_dir().to_str().unwrap(), "@REPO@")
            .replace(verif_dir().join("run/vrl-instr").to_str().unwrap(), "@REPO@")
    }
}

impl Drop for Scratch {
    fn drop(&mut self) {
        let _ = std::fs::remove_dir_all(&self.dir);
    }
}

fn remove_any(p: &Path) {
    if let Ok(md) = std::fs::symlink_metadata(p) {
        if md.is_dir() {
            let _ = std::fs::remove_dir_all(p);
        } else {
            let _ = std::fs::remove_file(p);
        }
    }
}

pub fn apply_file(scratch: &Scratch, f: &FileState) -> Result<(), String> {
    let p = scratch.dir.join(&f.name);
    match &f.state {
        FileKind::ThroughFile => {
            // name = "x/child": make "x" a regular file
            let parent = p.parent().unwrap();
            remove_any(parent);
            std::fs::write(parent, b"not a directory").map_err(|e| e.to_string())?;
            return Ok(());
        }
        _ => {}
    }
    if let Some(parent) = p.parent() {
        if std::fs::symlink_metadata(parent).map(|m| !m.is_dir()).unwrap_or(false) {
            remove_any(parent);
        }
        let _ = std::fs::create_dir_all(parent);
    }
    remove_any(&p);
    match &f.state {
        FileKind::Absent | FileKind::ThroughFile => {}
        FileKind::Directory => std::fs::create_dir_all(&p).map_err(|e| e.to_string())?,
        FileKind::DanglingSymlink => {
            std::os::unix::fs::symlink(scratch.dir.join("no-such-target"), &p).map_err(|e| e.to_string())?
        }
        FileKind::SymlinkLoop => std::os::unix::fs::symlink(&p, &p).map_err(|e| e.to_string())?,
        FileKind::Bytes { hex } => {
            let bytes: Vec<u8> = (0..hex.len() / 2)
                .filter_map(|i| u8::from_str_radix(&hex[2 * i..2 * i + 2], 16).ok())
                .collect();
            std::fs::write(&p, bytes).map_err(|e| e.to_string())?
        }
        FileKind::Content { from, truncate, flip_bit, append, mtime } => {
            let src = if Path::new(from).is_absolute() { PathBuf::from(from) } else { repo_dir().join(from) };
            let mut bytes = std::fs::read(&src).map_err(|e| format!("fixture {}: {e}", src.display()))?;
            if let Some(t) = truncate {
                bytes.truncate(*t as usize);
            }
            if let Some(b) = flip_bit {
                let i = (*b / 8) as usize;
                if i < bytes.len() {
                    bytes[i] ^= 1 << (*b % 8);
                }
            }
            if let Some(a) = append {
                bytes.extend_from_slice(a.as_bytes());
            }
            std::fs::write(&p, bytes).map_err(|e| e.to_string())?;
            if let Some(t) = mtime {
                let c = std::ffi::CString::new(p.to_str().unwrap()).unwrap();
                let times = [libc::timespec { tv_sec: *t, tv_nsec: 0 }, libc::timespec { tv_sec: *t, tv_nsec: 0 }];
                unsafe {
                    libc::utimensat(libc::AT_FDCWD, c.as_ptr(), times.as_ptr(), 0);
                }
            }
        }
    }
    Ok(())
}

pub struct Compiled {
    pub program: Option<Arc<Program>>,
    pub outcome: String,
    pub panicked: bool,
}

pub fn parse_ro(spec: &ProgramSpec) -> Vec<(OwnedTargetPath, bool)> {
    spec.read_only
        .iter()
        .filter_map(|(p, r)| vrl::path::parse_target_path(p).ok().map(|p| (p, *r)))
        .collect()
}

pub fn compile_program(spec: &ProgramSpec, scratch: &Scratch) -> Compiled {
    let source = scratch.subst(&spec.source);
    let ro = parse_ro(spec);
    let r = catch_unwind(AssertUnwindSafe(|| {
        let mut config = CompileConfig::default();
        for (p, rec) in &ro {
            config.set_read_only_path(p.clone(), *rec);
        }
        match vrl::compiler::compile_with_external(&source, functions(), &ExternalEnv::default(), config) {
            Ok(res) => {
                let out = render::compiled(&source, &res.program, res.warnings);
                (Some(Arc::new(res.program)), out)
            }
            Err(diags) => (None, format!("REJECTED\n{}", render::diagnostics(&source, diags))),
        }
    }));
    match r {
        Ok((p, out)) => Compiled { program: p, outcome: scratch.unsubst(&out), panicked: false },
        Err(_) => Compiled { program: None, outcome: scratch.unsubst(&format!("PANIC: {}", take_panic())), panicked: true },
    }
}

fn parse_tz(s: &str) -> TimeZone {
    match s {
        "Local" | "local" => TimeZone::Local,
        other => TimeZone::parse(other).unwrap_or(TimeZone::Named(chrono_tz::Tz::UTC)),
    }
}

struct NodeOut {
    obs: Vec<Obs>,
    hits: Vec<MonitorHit>,
    probes: BTreeMap<String, u64>,
    log_digest: u64,
}

#[allow(clippy::too_many_arguments)]
fn run_one(
    program: &Program,
    pspec: &ProgramSpec,
    espec: &EventSpec,
    faults: &FaultPlan,
    runtime: &mut Runtime,
    tz: &TimeZone,
    ref_backing: bool,
    monitors: &[String],
    scratch: &Scratch,
    prog_ix: usize,
) -> (Obs, Vec<(String, String, String)>, BTreeMap<String, u64>, u64) {
    let mut value: Value = Value::from(espec.value.clone());
    let mut metadata: Value = espec.metadata.clone().map(Value::from).unwrap_or_else(|| Value::Object(Default::default()));
    let mut secrets = secrets_from(&espec.secrets);
    let keys: Vec<String> = espec.secrets.keys().cloned().collect();
    let mon = Monitors {
        c16: monitors.iter().any(|m| m == "c16").then(|| Reported {
            queries: program.info().target_queries.clone(),
            assignments: program.info().target_assignments.clone(),
        }),
        c15: monitors.iter().any(|m| m == "c15").then(|| parse_ro(pspec)),
    };
    let backing = if ref_backing {
        Backing::Ref(TargetValueRef { value: &mut value, metadata: &mut metadata, secrets: &mut secrets })
    } else {
        Backing::Owned(TargetValue { value, metadata, secrets })
    };
    let ro_set = mon.c15.clone();
    let mut target = SimTarget::new(backing, faults.clone(), mon, &keys);
    // C15, whole-run view: values at read-only paths before the run (read from the backing store, not through the seam)
    let ro_before: Option<Vec<Option<Value>>> = ro_set.as_ref().map(|ro| ro.iter().map(|(p, _)| target.peek(p)).collect());
    sched::mark_run(Some(prog_ix));
    let r = catch_unwind(AssertUnwindSafe(|| runtime.resolve(&mut target, program, tz)));
    sched::mark_run(None);
    let (res, panicked) = match &r {
        Ok(r) => (render::run_result(r), false),
        Err(_) => (format!("PANIC: {}", take_panic()), true),
    };
    let outcome = format!(
        "result: {res}\nevent: {}\nmetadata: {}\nsecrets: {}",
        render::value(target.inner.value()),
        render::value(target.inner.metadata()),
        target.secrets_rendered()
    );
    if let (Some(ro), Some(before)) = (&ro_set, &ro_before) {
        for (i, ((p, recursive), b)) in ro.iter().zip(before.iter()).enumerate() {
            let a = target.peek(p);
            let bad = if *recursive { *b != a } else { b.is_some() && a.is_none() };
            // only what no operation-level hit already explains (e.g. a mutation that bypassed insert/remove)
            if bad && !target.c15_flagged.borrow().contains(&i) {
                target.hits.borrow_mut().push((
                    "c15".into(),
                    "whole-run".into(),
                    format!(
                        "after the run, read-only{} path {} holds {} but held {} before",
                        if *recursive { " (recursive)" } else { "" },
                        render::target_path(p),
                        render::opt_value(a.as_ref()),
                        render::opt_value(b.as_ref())
                    ),
                ));
            }
        }
    }
    let obs = Obs {
        counters: target.probes.borrow().clone(),
        node: 0,
        op: 0,
        kind: "run".into(),
        outcome: scratch.unsubst(&outcome),
        target_ops: target.ops.borrow().clone(),
        fired: target.fired.borrow().clone(),
        panicked,
    };
    let hits = target.hits.borrow().clone();
    let probes = target.probes.borrow().clone();
    let d = target.log_digest.get();
    (obs, hits, probes, d)
}

fn node_main(
    ix: usize,
    world: &WorldSpec,
    shared: &[Option<Arc<Program>>],
    scratch: &Scratch,
) -> NodeOut {
    let node = &world.nodes[ix];
    let tz = parse_tz(&node.tz);
    let mut out = NodeOut { obs: vec![], hits: vec![], probes: BTreeMap::new(), log_digest: 0xcbf2_9ce4_8422_2325 };
    let mut handles: Vec<Option<Arc<Program>>> = shared
        .iter()
        .map(|p| p.as_ref().map(|p| if node.own_clone { Arc::new((**p).clone()) } else { p.clone() }))
        .collect();
    let mut runtime = Runtime::default();
    let mut last_run_terminated_early = false;
    for (op_ix, op) in node.ops.iter().enumerate() {
        sched::yield_point("op");
        match op {
            Op::Compile { prog } => {
                let c = compile_program(&world.programs[*prog], scratch);
                handles[*prog] = c.program;
                out.log_digest = fnv_add(out.log_digest, c.outcome.as_bytes());
                out.obs.push(Obs { node: ix, op: op_ix, kind: "compile".into(), outcome: c.outcome, panicked: c.panicked, ..Default::default() });
            }
            Op::Run { prog, event, fresh_runtime, faults, .. } => {
                if handles[*prog].is_none() {
                    let c = compile_program(&world.programs[*prog], scratch);
                    if c.program.is_none() {
                        out.obs.push(Obs { node: ix, op: op_ix, kind: "run".into(), outcome: format!("NOPROGRAM\n{}", c.outcome), panicked: c.panicked, ..Default::default() });
                        continue;
                    }
                    handles[*prog] = c.program;
                }
                let program = handles[*prog].clone().unwrap();
                let mut fresh = Runtime::default();
                let rt = if *fresh_runtime { &mut fresh } else { &mut runtime };
                if !*fresh_runtime && last_run_terminated_early {
                    *out.probes.entry("run_after_early_termination_same_runtime".into()).or_insert(0) += 1;
                }
                let (mut obs, hits, probes, d) = run_one(
                    &program, &world.programs[*prog], &world.events[*event], faults, rt, &tz, node.ref_backing, &world.monitors, scratch, *prog,
                );
                if !*fresh_runtime {
                    last_run_terminated_early = !obs.outcome.starts_with("result: Ok");
                }
                obs.node = ix;
                obs.op = op_ix;
                out.log_digest = fnv_add(fnv_add(out.log_digest, &d.to_le_bytes()), obs.outcome.as_bytes());
                for (m, c, w) in hits {
                    out.hits.push(MonitorHit { monitor: m, class: c, node: ix, op: op_ix, what: w });
                }
                for (k, v) in probes {
                    *out.probes.entry(k).or_insert(0) += v;
                }
                out.obs.push(obs);
            }
            Op::Clear => {
                if last_run_terminated_early {
                    *out.probes.entry("clear_after_early_terminated_run".into()).or_insert(0) += 1;
                }
                runtime.clear();
                last_run_terminated_early = false;
                let empty = runtime.is_empty();
                if !empty {
                    out.hits.push(MonitorHit { class: String::new(), monitor: "residue".into(), node: ix, op: op_ix, what: "Runtime::is_empty() is false after clear()".into() });
                }
                out.obs.push(Obs { node: ix, op: op_ix, kind: "clear".into(), outcome: format!("empty={empty}"), ..Default::default() });
            }
            Op::CloneProgram { prog } => {
                if let Some(p) = &handles[*prog] {
                    handles[*prog] = Some(Arc::new((**p).clone()));
                }
            }
            Op::DropProgram { prog } => {
                handles[*prog] = None;
            }
            Op::SetFile { file } => {
                let _ = apply_file(scratch, file);
            }
        }
    }
    drop(handles);
    out
}

type Job<'s> = Box<dyn FnOnce() + Send + 's>;

/// Long-lived node threads for worlds that do not ask for fresh threads (cheap: no thread churn).
/// Their std hash keys were fixed when each thread built its first HashMap, so in pooled worlds the
/// per-node hash seed is a function of the session history rather than a per-world knob.
pub struct Pool<'s> {
    txs: Vec<std::sync::mpsc::Sender<Job<'s>>>,
}

impl<'s> Pool<'s> {
    fn ensure<'env>(&mut self, scope: &'s std::thread::Scope<'s, 'env>, n: usize) {
        while self.txs.len() < n {
            let (tx, rx) = std::sync::mpsc::channel::<Job<'s>>();
            let ix = self.txs.len();
            std::thread::Builder::new()
                .name(format!("pool{ix}"))
                .stack_size(node_stack())
                .spawn_scoped(scope, move || {
                    while let Ok(job) = rx.recv() {
                        job();
                    }
                })
                .expect("spawn pool thread");
            self.txs.push(tx);
        }
    }
}

fn node_stack() -> usize {
    std::env::var("VRL_SIM_STACK_MB").ok().and_then(|s| s.parse::<usize>().ok()).unwrap_or(16) * 1024 * 1024
}

fn node_job(ix: usize, world: &WorldSpec, shared: &[Option<Arc<Program>>], scratch: &Scratch, sched: &Arc<Sched>, outs: &Mutex<Vec<Option<NodeOut>>>) {
    entropy::seed_thread(world.nodes[ix].hash_seed);
    sched::enter_node(sched, ix);
    let r = catch_unwind(AssertUnwindSafe(|| node_main(ix, world, shared, scratch)));
    let out = r.unwrap_or_else(|_| NodeOut {
        obs: vec![Obs { node: ix, op: usize::MAX, kind: "node".into(), outcome: format!("PANIC outside an operation: {}", take_panic()), panicked: true, ..Default::default() }],
        hits: vec![],
        probes: BTreeMap::new(),
        log_digest: 0,
    });
    outs.lock().unwrap_or_else(|e| e.into_inner())[ix] = Some(out);
    sched::leave_node();
}

/// Runs one world on the calling (coordinator) thread; node threads are fresh (`pool` = None) or pooled.
pub fn run_world<'s, 'env: 's>(world: &'env WorldSpec, scratch: &'env Scratch, pool: Option<(&mut Pool<'s>, &'s std::thread::Scope<'s, 'env>)>) -> WorldResult {
    let mut res = WorldResult { id: world.id.clone(), ..Default::default() };
    match world.clock {
        Some(c) => {
            CLOCK.store(c, Ordering::SeqCst);
            CLOCK_SET.store(true, Ordering::SeqCst);
        }
        None => CLOCK_SET.store(false, Ordering::SeqCst),
    }
    for f in &world.files {
        if let Err(e) = apply_file(scratch, f) {
            res.monitor_hits.push(MonitorHit { class: String::new(), monitor: "harness".into(), node: 0, op: 0, what: format!("file state {}: {e}", f.name) });
        }
    }
    // precompilation on this (coordinator) thread
    let mut shared_v: Vec<Option<Arc<Program>>> = vec![];
    for p in &world.programs {
        if p.precompile {
            let c = compile_program(p, scratch);
            res.log_digest = fnv_add(res.log_digest, c.outcome.as_bytes());
            res.precompiled.push(Some(c.outcome));
            shared_v.push(c.program);
        } else {
            res.precompiled.push(None);
            shared_v.push(None);
        }
    }
    let shared = Arc::new(shared_v);
    let n = world.nodes.len();
    let sched = Sched::new(n, world.sched.policy.clone(), world.sched.seed, world.sched.max_yields);
    let outs: Arc<Mutex<Vec<Option<NodeOut>>>> = Arc::new(Mutex::new((0..n).map(|_| None).collect()));
    let watchdog = Duration::from_secs(240);
    let report = match pool {
        Some((pool, scope)) => {
            pool.ensure(scope, n);
            for ix in 0..n {
                let (sched, shared, outs) = (sched.clone(), shared.clone(), outs.clone());
                let job: Job<'s> = Box::new(move || node_job(ix, world, &shared, scratch, &sched, &outs));
                pool.txs[ix].send(job).expect("pool thread alive");
            }
            sched.run_to_completion(watchdog)
        }
        None => std::thread::scope(|scope| {
            for ix in 0..n {
                let (sched, shared, outs) = (sched.clone(), shared.clone(), outs.clone());
                std::thread::Builder::new()
                    .name(format!("node{ix}"))
                    .stack_size(node_stack())
                    .spawn_scoped(scope, move || node_job(ix, world, &shared, scratch, &sched, &outs))
                    .expect("spawn node thread");
            }
            let rep = sched.run_to_completion(watchdog);
            if rep.stuck {
                bail_stuck(&mut res, rep.clone());
            }
            rep
        }),
    };
    if report.stuck {
        bail_stuck(&mut res, report.clone());
    }
    res.sched = report;
    drop(shared);
    let outs = std::mem::take(&mut *outs.lock().unwrap_or_else(|e| e.into_inner()));
    for o in outs.into_iter().flatten() {
        res.log_digest = fnv_add(res.log_digest, &o.log_digest.to_le_bytes());
        res.obs.extend(o.obs);
        res.monitor_hits.extend(o.hits);
        for (k, v) in o.probes {
            *res.probes.entry(k).or_insert(0) += v;
        }
    }
    for (d, nn) in &res.sched.switches {
        res.log_digest = fnv_add(res.log_digest, &d.to_le_bytes());
        res.log_digest = fnv_add(res.log_digest, &[*nn]);
    }
    res
}

/// In fork-server children the result goes to fd 1 as a frame (see zygote.rs); otherwise as a JSON line.
pub static RESULT_FRAMED: AtomicBool = AtomicBool::new(false);

pub fn emit_result(res: &SessionResult) {
    let json = serde_json::to_vec(res).unwrap();
    if RESULT_FRAMED.load(Ordering::SeqCst) {
        let mut frame = Vec::with_capacity(json.len() + 5);
        frame.push(b'R');
        frame.extend_from_slice(&(json.len() as u32).to_le_bytes());
        frame.extend_from_slice(&json);
        crate::zygote::write_all_fd(1, &frame);
    } else {
        println!("{}", String::from_utf8_lossy(&json));
    }
}

/// Nodes are parked for ever: the session cannot continue. Report what we have and leave the process.
fn bail_stuck(res: &mut WorldResult, rep: crate::sched::SchedReport) -> ! {
    res.sched = rep;
    res.monitor_hits.push(MonitorHit { class: String::new(), monitor: "stuck".into(), node: 0, op: 0, what: "no node reached a yield point within the watchdog".into() });
    let mut partial = PARTIAL.lock().unwrap_or_else(|e| e.into_inner()).clone();
    partial.worlds.push(std::mem::take(res));
    emit_result(&partial);
    unsafe { libc::_exit(0) }
}

static PARTIAL: Mutex<SessionResult> = Mutex::new(SessionResult { worlds: vec![], aslr_disabled: false, entropy_calls: 0 });

pub fn run_session(spec: &SessionSpec) -> SessionResult {
    let scratch = Scratch::new();
    let mut result = SessionResult { aslr_disabled: crate::aslr_is_off(), ..Default::default() };
    let scratch_ref = &scratch;
    std::thread::scope(|scope| {
        let mut pool = Pool { txs: vec![] };
        for world in &spec.worlds {
            let w = if world.fresh_threads {
                // the world gets its own coordinator and node threads so that its hash seeds are knobs of the world
                let r = std::thread::scope(|inner| {
                    std::thread::Builder::new()
                        .name("coord".into())
                        .stack_size(2 * node_stack())
                        .spawn_scoped(inner, || {
                            entropy::seed_thread(world.coord_hash_seed ^ 0xC00D);
                            run_world(world, scratch_ref, None)
                        })
                        .expect("spawn coordinator")
                        .join()
                });
                r.unwrap_or_else(|_| WorldResult {
                    id: world.id.clone(),
                    monitor_hits: vec![MonitorHit { class: String::new(), monitor: "harness".into(), node: 0, op: 0, what: format!("coordinator panicked: {}", take_panic()) }],
                    ..Default::default()
                })
            } else {
                run_world(world, scratch_ref, Some((&mut pool, scope)))
            };
            PARTIAL.lock().unwrap_or_else(|e| e.into_inner()).worlds.push(w.clone());
            result.worlds.push(w);
        }
        drop(pool); // closes the channels: pool threads leave their loops and the scope can end
    });
    result.entropy_calls = entropy::CALLS.load(Ordering::Relaxed);
    result
}
