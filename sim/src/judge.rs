//! Judges: pure functions from (session spec, observations) to violations. The same judge is used
//! during search, for confirmation, for minimisation and by `replay`.

use std::collections::BTreeMap;

use crate::check::{truncate, Violation};
use crate::driver::WorkerError;
use crate::spec::*;

type Res = Result<SessionResult, WorkerError>;

pub fn died_pub(property: &str, e: &WorkerError, session: &SessionSpec, counts: bool) -> Result<Vec<Violation>, String> {
    died(property, e, session, counts)
}

pub fn prog_desc(w: &WorldSpec, ix: usize) -> String {
    let p = &w.programs[ix];
    let ro = if p.read_only.is_empty() { String::new() } else { format!("# read_only: {:?}\n", p.read_only) };
    format!("{}\n{ro}{}", p.label, p.source)
}

fn all_progs(s: &SessionSpec) -> String {
    s.worlds.iter().flat_map(|w| (0..w.programs.len()).map(move |i| prog_desc(w, i))).collect::<Vec<_>>().join("\n---\n")
}

fn died(property: &str, e: &WorkerError, session: &SessionSpec, counts: bool) -> Result<Vec<Violation>, String> {
    match e {
        WorkerError::Garbled(m) => Err(format!("worker output garbled: {m}")),
        // a wall-clock limit says nothing reliable on a loaded machine: a hang is a harness error, never a verdict
        // (a node that stops making progress is reported by the worker itself as `stuck`, and must reproduce)
        WorkerError::Hung(m) => Err(format!("worker exceeded the wall-clock limit: {m}")),
        _ if !counts => Err(format!("worker failed: {e}")),
        WorkerError::Died(m) => Ok(vec![Violation {
            property: property.into(),
            class: "process-abort".into(),
            at: "session".into(),
            program: all_progs(session),
            observed: truncate(m, 600),
            expected: "the worker process survives".into(),
            note: String::new(),
        }]),
    }
}

fn obs_of(w: &WorldResult, node: usize, op: usize) -> Option<&Obs> {
    w.obs.iter().find(|o| o.node == node && o.op == op)
}

fn run_parts(op: &Op) -> Option<(usize, usize, &FaultPlan, &str)> {
    match op {
        Op::Run { prog, event, faults, tag, .. } => Some((*prog, *event, faults, tag.as_str())),
        _ => None,
    }
}

fn result_line(outcome: &str) -> &str {
    outcome.lines().next().unwrap_or("")
}

fn rest_lines(outcome: &str) -> &str {
    outcome.split_once('\n').map(|x| x.1).unwrap_or("")
}

fn hits_root_probe(f: &FaultPlan) -> bool {
    f.at.contains(&0) || f.none_at.contains(&0) || f.burst.iter().any(|(s, l)| *s == 0 && *l > 0)
}

pub fn judge(name: &str, session: &SessionSpec, res: &Res, reference: &[SessionSpec], ref_res: &[Res]) -> Result<Vec<Violation>, String> {
    match name {
        "c17" => c17(session, res),
        "c16" => monitor_judge("C16", "c16", "uncovered-target-operation", session, res),
        "c15" => monitor_judge("C15", "c15", "read-only-modified", session, res),
        "c14" => crate::c14::judge(session, res, reference, ref_res),
        "c36" => crate::c36::judge(session, res, reference, ref_res),
        "c04" => crate::c04::judge(session, res),
        other => Err(format!("unknown judge {other}")),
    }
}

/// C17: never panics; Err == skipped; faulted root probe ends with an error; no fault residue.
fn c17(session: &SessionSpec, res: &Res) -> Result<Vec<Violation>, String> {
    let res = match res {
        Ok(r) => r,
        Err(e) => return died("C17", e, session, true),
    };
    let mut out = vec![];
    for (wspec, w) in session.worlds.iter().zip(res.worlds.iter()) {
        let mut push = |class: &str, node: usize, op: usize, prog: usize, observed: String, expected: String, note: String| {
            out.push(Violation {
                property: "C17".into(),
                class: class.into(),
                at: format!("world {} node {node} op {op}", wspec.id),
                program: prog_desc(wspec, prog),
                observed,
                expected,
                note,
            });
        };
        for h in &w.monitor_hits {
            if h.monitor == "stuck" || h.monitor == "residue" {
                let prog = wspec.nodes.get(h.node).and_then(|n| n.ops.iter().find_map(|o| run_parts(o).map(|r| r.0))).unwrap_or(0);
                push(if h.monitor == "stuck" { "stuck" } else { "fault-residue" }, h.node, h.op, prog, h.what.clone(), "no residue / progress".into(), String::new());
            }
        }
        // control runs across the whole world, by case id
        let mut ctl: BTreeMap<String, (usize, usize, usize, &Obs)> = BTreeMap::new();
        let mut unstable: std::collections::BTreeSet<String> = Default::default();
        for (nix, node) in wspec.nodes.iter().enumerate() {
            for (oix, op) in node.ops.iter().enumerate() {
                let Some((prog, _ev, faults, tag)) = run_parts(op) else { continue };
                let Some(obs) = obs_of(w, nix, oix) else { continue };
                if obs.panicked && obs.outcome.starts_with("NOPROGRAM") {
                    // a panic of the compiler on this source is an input-space matter (C04), not a target fault
                    continue;
                }
                if obs.panicked {
                    push("panic", nix, oix, prog, result_line(&obs.outcome).to_string(), "no panic".into(), format!("fault plan {}; target operations so far: {:?}", serde_json::to_string(faults).unwrap(), obs.target_ops));
                    continue;
                }
                if let Some(c) = tag.strip_prefix("ctl:") {
                    match ctl.get(c) {
                        None => {
                            ctl.insert(c.to_string(), (nix, oix, prog, obs));
                        }
                        Some((_, _, _, first)) => {
                            if first.outcome != obs.outcome || first.target_ops != obs.target_ops {
                                // two fault-free runs of the same program on the same event differ: that is
                                // nondeterminism (C14), not a matter of target faults; the case is not judged here
                                unstable.insert(c.to_string());
                            }
                        }
                    }
                }
            }
        }
        for (nix, node) in wspec.nodes.iter().enumerate() {
            // index runs of this node by tag
            let mut by_tag: BTreeMap<&str, (usize, usize, &FaultPlan, &Obs)> = BTreeMap::new();
            for (oix, op) in node.ops.iter().enumerate() {
                if let (Some((prog, _e, faults, tag)), Some(obs)) = (run_parts(op), obs_of(w, nix, oix)) {
                    if !tag.is_empty() && !obs.panicked {
                        by_tag.insert(tag, (oix, prog, faults, obs));
                    }
                }
            }
            for (tag, (oix, prog, faults, obs)) in &by_tag {
                let case_of = |id: &str| id.split(':').next().unwrap_or("").to_string();
                if let Some(id) = tag.strip_prefix("fault:").or(tag.strip_prefix("after:")).or(tag.strip_prefix("skip:")) {
                    if unstable.contains(&case_of(id)) {
                        continue;
                    }
                }
                if let Some(id) = tag.strip_prefix("fault:") {
                    let probe = hits_root_probe(faults);
                    if probe {
                        // oracle 3: ends with Terminate::Error, no further target operation, event untouched
                        if !result_line(&obs.outcome).starts_with("result: Error(") || obs.target_ops.len() != 1 {
                            push("root-probe-not-fatal", nix, *oix, *prog, format!("{} after {} target operations", result_line(&obs.outcome), obs.target_ops.len()), "result: Error(..) and no target operation after the root probe".into(), format!("fault plan {}", serde_json::to_string(faults).unwrap()));
                        }
                    }
                    let skip_tag = format!("skip:{id}");
                    if let Some((_, _, _, sk)) = by_tag.get(skip_tag.as_str()) {
                        let same_ops = obs.target_ops == sk.target_ops;
                        let same_outcome = if probe { rest_lines(&obs.outcome) == rest_lines(&sk.outcome) } else { obs.outcome == sk.outcome };
                        if !same_ops || !same_outcome {
                            let (o, e) = if !same_ops {
                                (format!("target operations {:?}", obs.target_ops), format!("target operations {:?}", sk.target_ops))
                            } else {
                                (obs.outcome.clone(), sk.outcome.clone())
                            };
                            push("err-not-equivalent-to-skip", nix, *oix, *prog, o, e, format!("fault plan {}: a rejected operation must behave like a missing field / leave the target unchanged", serde_json::to_string(faults).unwrap()));
                        }
                    }
                }
                if let Some(id) = tag.strip_prefix("after:") {
                    let case = id.split(':').next().unwrap_or("");
                    // only judged when the runtime was cleared immediately before (otherwise residue is legitimate)
                    let cleared = *oix > 0 && matches!(node.ops[*oix - 1], Op::Clear);
                    if !cleared {
                        continue;
                    }
                    if let Some((_, _, _, c)) = ctl.get(case) {
                        if c.outcome != obs.outcome || c.target_ops != obs.target_ops {
                            push("fault-residue", nix, *oix, *prog, obs.outcome.clone(), c.outcome.clone(), "fault-free run after a faulted run + clear() differs from the control run".into());
                        }
                    }
                }
            }
        }
    }
    Ok(out)
}

/// C15 / C16: the verdict is what the online monitor in SimTarget said.
fn monitor_judge(property: &str, monitor: &str, class: &str, session: &SessionSpec, res: &Res) -> Result<Vec<Violation>, String> {
    let res = match res {
        Ok(r) => r,
        Err(e) => return died(property, e, session, false),
    };
    let mut out = vec![];
    for (wspec, w) in session.worlds.iter().zip(res.worlds.iter()) {
        for h in &w.monitor_hits {
            if h.monitor != monitor {
                continue;
            }
            let prog = wspec.nodes.get(h.node).and_then(|n| n.ops.get(h.op)).and_then(run_parts).map(|r| r.0).unwrap_or(0);
            let ev = wspec.nodes.get(h.node).and_then(|n| n.ops.get(h.op)).and_then(run_parts).map(|r| r.1).unwrap_or(0);
            out.push(Violation {
                property: property.into(),
                class: if h.class.is_empty() || h.class == "whole-run" { class.into() } else { h.class.clone() },
                at: format!("world {} node {} op {}", wspec.id, h.node, h.op),
                program: prog_desc(wspec, prog),
                observed: h.what.clone(),
                expected: if monitor == "c16" { "every target operation is covered by ProgramInfo".into() } else { "read-only data is left intact".into() },
                note: format!("event: {}", wspec.events.get(ev).map(|e| serde_json::to_string(e).unwrap()).unwrap_or_default()),
            });
        }
    }
    Ok(out)
}
