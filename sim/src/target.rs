//! The event-store seam (N7): `SimTarget` wraps the real `TargetValue` /
//! `TargetValueRef`, is a yield point, logs every operation, injects faults and
//! evaluates the online monitors of C15 / C16.

use std::cell::{Cell, RefCell};
use std::collections::{BTreeMap, BTreeSet};

use vrl::compiler::{SecretTarget, Target, TargetValue, TargetValueRef};
use vrl::path::{OwnedSegment, OwnedTargetPath, PathPrefix};
use vrl::value::{Secrets, Value};

use crate::render;
use crate::sched;
use crate::spec::FaultPlan;

#[derive(Debug)]
pub enum Backing<'a> {
    Owned(TargetValue),
    Ref(TargetValueRef<'a>),
}

impl Backing<'_> {
    fn t(&self) -> &dyn Target {
        match self {
            Backing::Owned(t) => t,
            Backing::Ref(t) => t,
        }
    }
    fn t_mut(&mut self) -> &mut dyn Target {
        match self {
            Backing::Owned(t) => t,
            Backing::Ref(t) => t,
        }
    }
    pub fn value(&self) -> &Value {
        match self {
            Backing::Owned(t) => &t.value,
            Backing::Ref(t) => t.value,
        }
    }
    pub fn metadata(&self) -> &Value {
        match self {
            Backing::Owned(t) => &t.metadata,
            Backing::Ref(t) => t.metadata,
        }
    }
}

/// What the C16 monitor needs: the compiler's report.
#[derive(Debug, Clone, Default)]
pub struct Reported {
    pub queries: Vec<OwnedTargetPath>,
    pub assignments: Vec<OwnedTargetPath>,
}

#[derive(Debug, Default)]
pub struct Monitors {
    pub c16: Option<Reported>,
    /// read-only set the program was accepted under: (path, recursive)
    pub c15: Option<Vec<(OwnedTargetPath, bool)>>,
}

#[derive(Debug)]
pub struct SimTarget<'a> {
    pub inner: Backing<'a>,
    plan: FaultPlan,
    sticky_w: Vec<OwnedTargetPath>,
    sticky_r: Vec<OwnedTargetPath>,
    k: Cell<u32>,
    pub ops: RefCell<Vec<String>>,
    pub log_digest: Cell<u64>,
    pub fired: RefCell<BTreeMap<String, u32>>,
    pub hits: RefCell<Vec<(String, String, String)>>,
    pub probes: RefCell<BTreeMap<String, u64>>,
    /// read-only entries (by index) for which an operation-level C15 hit was already recorded
    pub c15_flagged: RefCell<BTreeSet<usize>>,
    monitors: Monitors,
    secret_keys: RefCell<BTreeSet<String>>,
}

fn seg_prefix(a: &[OwnedSegment], b: &[OwnedSegment]) -> bool {
    a.len() <= b.len() && a.iter().zip(b.iter()).all(|(x, y)| x == y)
}

/// equal, ancestor or descendant (same prefix)
pub fn covers(r: &OwnedTargetPath, q: &OwnedTargetPath) -> bool {
    r.prefix == q.prefix
        && (seg_prefix(&r.path.segments, &q.path.segments) || seg_prefix(&q.path.segments, &r.path.segments))
}

fn at_or_below(q: &OwnedTargetPath, p: &OwnedTargetPath) -> bool {
    q.prefix == p.prefix && seg_prefix(&p.path.segments, &q.path.segments)
}

#[derive(Debug, Clone, PartialEq)]
enum RSeg {
    Field(String),
    Index(usize),
    /// every index >= n (elements shifted by a removal)
    IndexFrom(usize),
    /// could not be resolved (negative index out of range, no array there)
    Unknown,
}

/// Resolve a path against the current value: negative indices become absolute.
fn resolve_segs(root: &Value, segs: &[OwnedSegment]) -> Vec<RSeg> {
    let mut out = vec![];
    let mut cur: Option<&Value> = Some(root);
    for s in segs {
        match s {
            OwnedSegment::Field(f) => {
                out.push(RSeg::Field(f.to_string()));
                cur = match cur {
                    Some(Value::Object(o)) => o.get(f.as_str()),
                    _ => None,
                };
            }
            OwnedSegment::Index(i) => {
                let arr = match cur {
                    Some(Value::Array(a)) => Some(a),
                    _ => None,
                };
                if *i >= 0 {
                    out.push(RSeg::Index(*i as usize));
                    cur = arr.and_then(|a| a.get(*i as usize));
                } else {
                    match arr {
                        Some(a) if (a.len() as isize + *i) >= 0 => {
                            let ix = (a.len() as isize + *i) as usize;
                            out.push(RSeg::Index(ix));
                            cur = a.get(ix);
                        }
                        _ => {
                            out.push(RSeg::Unknown);
                            cur = None;
                        }
                    }
                }
            }
        }
    }
    out
}

/// does written location `w` denote `p` or an ancestor of `p`?
fn written_hits(w: &[RSeg], p: &[RSeg]) -> bool {
    if w.len() > p.len() {
        return false;
    }
    w.iter().zip(p.iter()).all(|(a, b)| match (a, b) {
        (RSeg::Field(x), RSeg::Field(y)) => x == y,
        (RSeg::Index(x), RSeg::Index(y)) => x == y,
        (RSeg::IndexFrom(x), RSeg::Index(y)) => y >= x,
        _ => false,
    })
}

impl<'a> SimTarget<'a> {
    pub fn new(inner: Backing<'a>, plan: FaultPlan, monitors: Monitors, initial_secret_keys: &[String]) -> Self {
        let parse = |v: &Vec<String>| -> Vec<OwnedTargetPath> {
            v.iter().filter_map(|s| vrl::path::parse_target_path(s).ok()).collect()
        };
        SimTarget {
            sticky_w: parse(&plan.sticky_write),
            sticky_r: parse(&plan.sticky_read),
            inner,
            plan,
            k: Cell::new(0),
            ops: RefCell::new(vec![]),
            log_digest: Cell::new(0xcbf2_9ce4_8422_2325),
            fired: RefCell::new(BTreeMap::new()),
            hits: RefCell::new(vec![]),
            probes: RefCell::new(BTreeMap::new()),
            c15_flagged: RefCell::new(BTreeSet::new()),
            monitors,
            secret_keys: RefCell::new(initial_secret_keys.iter().cloned().collect()),
        }
    }

    /// read the backing store directly (no yield, no log, no fault): for before/after snapshots
    pub fn peek(&self, path: &OwnedTargetPath) -> Option<Value> {
        self.inner.t().target_get(path).ok().flatten().cloned()
    }

    pub fn op_count(&self) -> u32 {
        self.k.get()
    }

    fn probe(&self, name: &str) {
        *self.probes.borrow_mut().entry(name.to_string()).or_insert(0) += 1;
    }

    fn log(&self, sig: String, res: &str) {
        let mut h = self.log_digest.get();
        h = crate::prng::fnv_add(h, sig.as_bytes());
        h = crate::prng::fnv_add(h, res.as_bytes());
        self.log_digest.set(h);
        self.ops.borrow_mut().push(sig);
    }

    /// Returns Some(kind) if operation number k (of kind `op` at `path`) is to be faulted.
    fn fault(&self, k: u32, op: &str, path: &OwnedTargetPath) -> Option<&'static str> {
        let is_write = op == "insert" || op == "remove";
        let hit = if self.plan.at.contains(&k) {
            Some(match op {
                "get" if k == 0 => "root_probe_err",
                "get" => "get_err",
                "get_mut" => "get_mut_err",
                "insert" => "insert_err",
                _ => "remove_err",
            })
        } else if self.plan.burst.iter().any(|(s, l)| k >= *s && k < s.saturating_add(*l)) {
            Some("burst")
        } else if is_write && self.sticky_w.iter().any(|p| at_or_below(path, p)) {
            Some("sticky_write")
        } else if !is_write && k > 0 && self.sticky_r.iter().any(|p| at_or_below(path, p)) {
            Some("sticky_read")
        } else {
            None
        };
        if let Some(kind) = hit {
            *self.fired.borrow_mut().entry(kind.to_string()).or_insert(0) += 1;
        }
        hit
    }

    fn c16_check(&self, k: u32, op: &str, path: &OwnedTargetPath) {
        if k == 0 {
            return; // the runtime's own root probe
        }
        let Some(rep) = &self.monitors.c16 else { return };
        let in_q = rep.queries.iter().any(|r| covers(r, path));
        let in_a = rep.assignments.iter().any(|r| covers(r, path));
        let ok = match op {
            "get" | "get_mut" => in_q,
            "insert" => in_a,
            _ => in_q || in_a,
        };
        self.probe("c16_ops_checked");
        if !ok {
            self.hits.borrow_mut().push((
                "c16".to_string(),
                String::new(),
                format!(
                    "target_{op}({}) as operation #{k} is not covered by the reported {}",
                    render::target_path(path),
                    if op == "insert" { "target_assignments" } else { "target_queries" }
                ),
            ));
        }
    }

    fn root_of(&self, prefix: PathPrefix) -> &Value {
        match prefix {
            PathPrefix::Event => self.inner.value(),
            PathPrefix::Metadata => self.inner.metadata(),
        }
    }

    /// C15, evaluated around an applied mutation. `before` was captured by `c15_before`.
    fn c15_before(&self, op: &str, path: &OwnedTargetPath) -> Option<C15Snapshot> {
        let ro = self.monitors.c15.as_ref()?;
        let mut snap = vec![];
        for (p, _rec) in ro {
            snap.push(self.inner.t().target_get(p).ok().flatten().cloned());
        }
        // locations directly written by this operation, resolved against the state before it
        let root = self.root_of(path.prefix);
        let mut w = resolve_segs(root, &path.path.segments);
        if op == "remove" {
            if let Some(RSeg::Index(i)) = w.last().cloned() {
                let n = w.len();
                w[n - 1] = RSeg::IndexFrom(i);
            }
        } else if let Some(pos) = w.iter().position(|s| *s == RSeg::Unknown) {
            // insert through an out-of-range negative index pads at the front: every element of that array moves
            w.truncate(pos);
            w.push(RSeg::IndexFrom(0));
        }
        let ro_resolved: Vec<Vec<RSeg>> = ro
            .iter()
            .map(|(p, _)| resolve_segs(self.root_of(p.prefix), &p.path.segments))
            .collect();
        Some(C15Snapshot { values: snap, written: w, ro_resolved })
    }

    fn c15_after(&self, k: u32, op: &str, path: &OwnedTargetPath, compact: bool, before: Option<C15Snapshot>) {
        let (Some(ro), Some(before)) = (self.monitors.c15.as_ref(), before) else { return };
        self.probe("c15_mutations_checked");
        for (i, (p, recursive)) in ro.iter().enumerate() {
            let after = self.inner.t().target_get(p).ok().flatten().cloned();
            let b = &before.values[i];
            let desc = |what: &str| {
                format!(
                    "target_{op}({}{}) as operation #{k} {what} read-only{} path {}: before {}, after {}",
                    render::target_path(path),
                    if compact { ", compact" } else { "" },
                    if *recursive { " (recursive)" } else { "" },
                    render::target_path(p),
                    render::opt_value(b.as_ref()),
                    render::opt_value(after.as_ref())
                )
            };
            let what = if *recursive {
                if *b != after { Some(desc("changed the value at")) } else { None }
            } else if b.is_some() && after.is_none() {
                Some(desc("removed the value at"))
            } else if p.prefix == path.prefix
                && !before.ro_resolved[i].contains(&RSeg::Unknown)
                && written_hits(&before.written, &before.ro_resolved[i])
                && *b != after
            {
                Some(desc("wrote to (or above)"))
            } else {
                None
            };
            if let Some(what) = what {
                let class = classify_c15(op, path, compact, p, *recursive, b.as_ref(), after.as_ref());
                if class != "read-only-modified" {
                    self.probe(&format!("c15_shape_{class}"));
                }
                self.c15_flagged.borrow_mut().insert(i);
                self.hits.borrow_mut().push(("c15".into(), class.to_string(), what));
            }
        }
    }

    pub fn secrets_rendered(&self) -> String {
        let keys = self.secret_keys.borrow();
        let mut s = String::from("{");
        for k in keys.iter() {
            if let Some(v) = self.get_secret_raw(k) {
                s.push_str(&format!("{k:?}: {v:?}, "));
            }
        }
        s.push('}');
        s
    }

    fn get_secret_raw(&self, key: &str) -> Option<&str> {
        match &self.inner {
            Backing::Owned(t) => t.get_secret(key),
            Backing::Ref(t) => t.get_secret(key),
        }
    }
}

/// Shape of a C15 hit. The array-aliasing shapes are properties of how array indices behave dynamically
/// (negative indices, shifting on deletion, padding on insertion, compaction) while the compiler compares
/// paths syntactically; everything else is the plain class.
fn classify_c15(
    op: &str,
    path: &OwnedTargetPath,
    compact: bool,
    p: &OwnedTargetPath,
    recursive: bool,
    before: Option<&Value>,
    after: Option<&Value>,
) -> &'static str {
    if path.prefix != p.prefix {
        return "read-only-modified";
    }
    let q = &path.path.segments;
    let r = &p.path.segments;
    // first position at which an index of the operation path meets an index of the read-only path in the same array
    for t in 0..q.len().min(r.len()) {
        if q[..t] != r[..t] {
            break;
        }
        if let (OwnedSegment::Index(i), OwnedSegment::Index(j)) = (&q[t], &r[t]) {
            if *i < 0 || *j < 0 {
                return "array-alias-negative-index";
            }
            let last = t + 1 == q.len();
            if op == "remove" && j > i && (last || compact) {
                return "array-alias-delete-shifts";
            }
            if op == "insert" && j < i && before.is_none() && after == Some(&Value::Null) {
                return "array-alias-insert-pads";
            }
        }
        if q[t] != r[t] {
            break;
        }
    }
    if op == "remove" && compact && !recursive && r.len() < q.len() && q[..r.len()] == r[..] {
        return "compact-delete-cascades-to-ancestor";
    }
    "read-only-modified"
}

struct C15Snapshot {
    values: Vec<Option<Value>>,
    written: Vec<RSeg>,
    ro_resolved: Vec<Vec<RSeg>>,
}

impl Target for SimTarget<'_> {
    fn target_insert(&mut self, path: &OwnedTargetPath, value: Value) -> Result<(), String> {
        sched::yield_point("target_insert");
        let k = self.k.get();
        self.k.set(k + 1);
        let sig = format!("#{k} insert {} <- {}", render::target_path(path), render::value(&value));
        self.c16_check(k, "insert", path);
        if let Some(kind) = self.fault(k, "insert", path) {
            self.log(sig, kind);
            return if self.plan.skip_mode { Ok(()) } else { Err(format!("injected: {kind}")) };
        }
        let before = self.c15_before("insert", path);
        let r = self.inner.t_mut().target_insert(path, value);
        self.c15_after(k, "insert", path, false, before);
        self.log(sig, "ok");
        r
    }

    fn target_get(&self, path: &OwnedTargetPath) -> Result<Option<&Value>, String> {
        sched::yield_point("target_get");
        let k = self.k.get();
        self.k.set(k + 1);
        let sig = format!("#{k} get {}", render::target_path(path));
        self.c16_check(k, "get", path);
        if self.plan.none_at.contains(&k) {
            *self.fired.borrow_mut().entry(if k == 0 { "root_probe_none" } else { "get_none" }.to_string()).or_insert(0) += 1;
            self.log(sig, "forced-none");
            return Ok(None);
        }
        if let Some(kind) = self.fault(k, "get", path) {
            self.log(sig, kind);
            return if self.plan.skip_mode { Ok(None) } else { Err(format!("injected: {kind}")) };
        }
        let r = self.inner.t().target_get(path);
        let res = match &r {
            Ok(v) => render::opt_value(*v),
            Err(e) => format!("Err({e})"),
        };
        self.log(sig, &res);
        r
    }

    fn target_get_mut(&mut self, path: &OwnedTargetPath) -> Result<Option<&mut Value>, String> {
        sched::yield_point("target_get_mut");
        let k = self.k.get();
        self.k.set(k + 1);
        let sig = format!("#{k} get_mut {}", render::target_path(path));
        self.c16_check(k, "get_mut", path);
        if let Some(kind) = self.fault(k, "get_mut", path) {
            self.log(sig, kind);
            return if self.plan.skip_mode { Ok(None) } else { Err(format!("injected: {kind}")) };
        }
        self.log(sig, "ok");
        self.inner.t_mut().target_get_mut(path)
    }

    fn target_remove(&mut self, path: &OwnedTargetPath, compact: bool) -> Result<Option<Value>, String> {
        sched::yield_point("target_remove");
        let k = self.k.get();
        self.k.set(k + 1);
        let sig = format!("#{k} remove {}{}", render::target_path(path), if compact { " compact" } else { "" });
        self.c16_check(k, "remove", path);
        if let Some(kind) = self.fault(k, "remove", path) {
            self.log(sig, kind);
            return if self.plan.skip_mode { Ok(None) } else { Err(format!("injected: {kind}")) };
        }
        let before = self.c15_before("remove", path);
        let r = self.inner.t_mut().target_remove(path, compact);
        self.c15_after(k, "remove", path, compact, before);
        let res = match &r {
            Ok(v) => render::opt_value(v.as_ref()),
            Err(e) => format!("Err({e})"),
        };
        self.log(sig, &res);
        r
    }
}

impl SecretTarget for SimTarget<'_> {
    fn get_secret(&self, key: &str) -> Option<&str> {
        self.secret_keys.borrow_mut().insert(key.to_string());
        self.get_secret_raw(key)
    }

    fn insert_secret(&mut self, key: &str, value: &str) {
        self.secret_keys.borrow_mut().insert(key.to_string());
        match &mut self.inner {
            Backing::Owned(t) => t.insert_secret(key, value),
            Backing::Ref(t) => t.insert_secret(key, value),
        }
    }

    fn remove_secret(&mut self, key: &str) {
        self.secret_keys.borrow_mut().insert(key.to_string());
        match &mut self.inner {
            Backing::Owned(t) => t.remove_secret(key),
            Backing::Ref(t) => t.remove_secret(key),
        }
    }
}

pub fn secrets_from(map: &BTreeMap<String, String>) -> Secrets {
    let mut s = Secrets::new();
    for (k, v) in map {
        s.insert(k.clone(), v.clone());
    }
    s
}
