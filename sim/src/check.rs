//! Common machinery of all checks: context (tier, seed, budget), violations, known findings,
//! confirmation by fresh replay, minimisation, replay files, evidence files.

use std::collections::BTreeMap;
use std::path::PathBuf;
use std::time::{Duration, Instant};

use serde::{Deserialize, Serialize};

use crate::driver::{self, WorkerError};
use crate::judge;
use crate::prng::fnv;
use crate::spec::*;
use crate::worker::{repo_dir, verif_dir};

#[derive(Clone, Copy, Debug, PartialEq)]
pub enum Tier {
    Quick,
    Thorough,
}

/// Tier of the running check, for workload builders that have no `Ctx` at hand (set by `Ctx::new`).
pub static QUICK_TIER: std::sync::atomic::AtomicBool = std::sync::atomic::AtomicBool::new(true);

pub struct Ctx {
    pub property: String,
    pub tier: Tier,
    pub seed: u64,
    pub start: Instant,
    pub par: usize,
    /// after this instant no new batch of worlds is scheduled
    pub soft_deadline: Instant,
    pub session_timeout: Duration,
}

impl Ctx {
    pub fn new(property: &str, tier: Tier) -> Self {
        let seed = std::env::var("VERIF_SEED").ok().and_then(|s| s.trim().parse::<u64>().ok()).unwrap_or(1);
        let budget = match tier {
            Tier::Quick => Duration::from_secs(150),
            Tier::Thorough => Duration::from_secs(25 * 60),
        };
        let budget = std::env::var("VERIF_BUDGET_S").ok().and_then(|s| s.parse().ok()).map(Duration::from_secs).unwrap_or(budget);
        QUICK_TIER.store(tier == Tier::Quick, std::sync::atomic::Ordering::SeqCst);
        println!("vrl-sim check {property} tier={tier:?} VERIF_SEED={seed} jobs={}", driver::parallelism());
        Ctx {
            property: property.to_string(),
            tier,
            seed,
            start: Instant::now(),
            par: driver::parallelism(),
            soft_deadline: Instant::now() + budget,
            session_timeout: Duration::from_secs(1800),
        }
    }
    pub fn out_of_time(&self) -> bool {
        Instant::now() > self.soft_deadline
    }
    pub fn quick(&self) -> bool {
        self.tier == Tier::Quick
    }
}

#[derive(Clone, Debug, Serialize, Deserialize)]
pub struct Violation {
    pub property: String,
    /// e.g. "panic", "err-not-skip", "hash-order-divergence", "history-divergence", "uncovered-read"
    pub class: String,
    /// world id / node / op of the first divergent observation
    pub at: String,
    /// label + source of the program at the first divergent observation (used for known-finding matching)
    pub program: String,
    pub observed: String,
    pub expected: String,
    #[serde(default)]
    pub note: String,
}

impl Violation {
    /// grouping key: same class at the same program = same report
    pub fn group_key(&self) -> String {
        if self.class == "panic" {
            // one report per panic site, whichever program reached it
            let site = self.observed.rsplit(" @ ").next().unwrap_or("").trim().to_string();
            return format!("{}|{}|{}", self.property, self.class, site);
        }
        format!("{}|{}|{:016x}", self.property, self.class, fnv(self.program.as_bytes()))
    }
}

#[derive(Clone, Debug, Serialize, Deserialize, Default)]
pub struct KnownFindings {
    #[serde(default)]
    pub findings: Vec<KnownFinding>,
    /// "fixed: property=<id> <commit> <what failed>" lines; they suppress nothing
    #[serde(default)]
    pub fixed: Vec<String>,
}

#[derive(Clone, Debug, Serialize, Deserialize)]
pub struct KnownFinding {
    pub property: String,
    pub class: String,
    /// all of these must occur in the program source at the first divergent observation
    #[serde(default)]
    pub source_contains: Vec<String>,
    /// all of these must occur in the observed/expected text or the `at` text
    #[serde(default)]
    pub detail_contains: Vec<String>,
    pub what: String,
}

pub fn load_known() -> KnownFindings {
    let p = verif_dir().join("known_findings.json");
    match std::fs::read_to_string(&p) {
        Ok(s) => serde_json::from_str(&s).unwrap_or_else(|e| {
            eprintln!("HARNESS: {} does not parse: {e}", p.display());
            std::process::exit(2);
        }),
        Err(_) => KnownFindings::default(),
    }
}

pub fn matches_known<'a>(k: &'a KnownFindings, v: &Violation) -> Option<&'a KnownFinding> {
    k.findings.iter().find(|f| {
        f.property == v.property
            && f.class == v.class
            && f.source_contains.iter().all(|s| v.program.contains(s))
            && f.detail_contains.iter().all(|s| v.observed.contains(s) || v.expected.contains(s) || v.at.contains(s) || v.note.contains(s))
    })
}

pub fn vrl_tree_id() -> String {
    let run = |args: &[&str]| -> String {
        std::process::Command::new("git").arg("-C").arg(repo_dir()).args(args).output().map(|o| String::from_utf8_lossy(&o.stdout).trim().to_string()).unwrap_or_default()
    };
    let head = run(&["rev-parse", "--short", "HEAD"]);
    let dirty = run(&["status", "--porcelain", "--untracked-files=no"]);
    if dirty.is_empty() { head } else { format!("{head}+dirty:{:08x}", fnv(run(&["diff"]).as_bytes()) as u32) }
}

/// Run a session (and its optional reference) in fresh processes and judge it.
pub fn execute(judge_name: &str, session: &SessionSpec, reference: &[SessionSpec], timeout: Duration) -> Result<Vec<Violation>, String> {
    let res = driver::run_one(session, timeout);
    let ref_res: Vec<_> = reference.iter().map(|r| driver::run_one(r, timeout)).collect();
    judge::judge(judge_name, session, &res, reference, &ref_res)
}

pub struct Reporter {
    pub property: String,
    pub known: KnownFindings,
    /// group key -> (violation, judge, session, reference)
    pub groups: BTreeMap<String, (Violation, String, SessionSpec, Vec<SessionSpec>)>,
    pub total_candidates: u64,
    pub seed: u64,
}

pub struct Verdict {
    pub violations: u32,
    pub known_seen: Vec<String>,
    pub harness_errors: u32,
}

impl Reporter {
    pub fn new(ctx: &Ctx) -> Self {
        Reporter { property: ctx.property.clone(), known: load_known(), groups: BTreeMap::new(), total_candidates: 0, seed: ctx.seed }
    }

    /// Record a candidate violation together with the smallest session known to show it.
    pub fn candidate(&mut self, v: Violation, judge: &str, session: SessionSpec, reference: Vec<SessionSpec>) {
        self.total_candidates += 1;
        let key = v.group_key();
        match self.groups.get(&key) {
            Some((_, _, s, _)) if session_size(s) <= session_size(&session) => {}
            _ => {
                self.groups.insert(key, (v, judge.to_string(), session, reference));
            }
        }
    }

    /// Confirm each group by fresh replays, minimise, write replay files, print the verdict lines.
    pub fn finish(&mut self, ctx: &Ctx) -> Verdict {
        let mut verdict = Verdict { violations: 0, known_seen: vec![], harness_errors: 0 };
        let dir = verif_dir().join("replays");
        let _ = std::fs::create_dir_all(&dir);
        let max_reports = 6;
        let groups: Vec<_> = self.groups.values().cloned().collect();
        let mut printed_known: Vec<String> = vec![];
        for (n, (v, judge_name, session, reference)) in groups.into_iter().enumerate() {
            if let Some(k) = matches_known(&self.known, &v) {
                if !printed_known.contains(&k.what) {
                    println!("KNOWN-FINDING: property={} {}", v.property, k.what);
                    printed_known.push(k.what.clone());
                    verdict.known_seen.push(k.what.clone());
                }
                continue;
            }
            if n >= max_reports && verdict.violations > 0 {
                println!("(further violation groups not confirmed individually: {})", v.group_key());
                continue;
            }
            // confirm: must reproduce in a fresh replay (same property, class, program)
            let same = |vs: &[Violation]| vs.iter().find(|w| w.group_key() == v.group_key()).cloned();
            let mut confirmed = None;
            for _ in 0..5 {
                match execute(&judge_name, &session, &reference, ctx.session_timeout) {
                    Ok(vs) => {
                        if let Some(w) = same(&vs) {
                            confirmed = Some(w);
                            break;
                        }
                    }
                    Err(e) => {
                        eprintln!("HARNESS: replay failed: {e}");
                    }
                }
            }
            let Some(confirmed) = confirmed else {
                eprintln!("HARNESS: candidate violation did not reproduce in five fresh replays: {} at {} ({})", v.class, v.at, v.program.lines().next().unwrap_or(""));
                verdict.harness_errors += 1;
                continue;
            };
            // the confirmed violation may match a known finding more precisely (e.g. after replay the `at` differs)
            if let Some(k) = matches_known(&self.known, &confirmed) {
                if !printed_known.contains(&k.what) {
                    println!("KNOWN-FINDING: property={} {}", v.property, k.what);
                    printed_known.push(k.what.clone());
                    verdict.known_seen.push(k.what.clone());
                }
                continue;
            }
            let (min_session, min_reference, min_v) = crate::minimise::minimise(&judge_name, &session, &reference, &confirmed, Duration::from_secs(if ctx.quick() { 25 } else { 90 }));
            let file = ReplayFile {
                property: min_v.property.clone(),
                class: min_v.class.clone(),
                at: min_v.at.clone(),
                observed: min_v.observed.clone(),
                expected: min_v.expected.clone(),
                vrl_tree: vrl_tree_id(),
                seed: self.seed,
                judge: judge_name.clone(),
                session: min_session,
                reference: min_reference,
                note: format!("{}\nprogram:\n{}", min_v.note, min_v.program),
            };
            let name = format!("{}-{}-{:016x}.json", min_v.property, min_v.class, fnv(serde_json::to_string(&file.session).unwrap().as_bytes()));
            let path = dir.join(name);
            std::fs::write(&path, serde_json::to_string_pretty(&file).unwrap()).expect("write replay file");
            println!("--- {} / {} at {}", min_v.property, min_v.class, min_v.at);
            for l in min_v.program.lines().take(14) {
                println!("    | {l}");
            }
            println!("    observed: {}", truncate(&min_v.observed, 400));
            println!("    expected: {}", truncate(&min_v.expected, 400));
            println!("VIOLATION property={} replay={}", min_v.property, path.display());
            verdict.violations += 1;
        }
        verdict
    }
}

pub fn truncate(s: &str, n: usize) -> String {
    if s.chars().count() <= n { s.to_string() } else { format!("{}…", s.chars().take(n).collect::<String>()) }
}

pub fn session_size(s: &SessionSpec) -> usize {
    s.worlds.iter().map(|w| 1 + w.nodes.iter().map(|n| 1 + n.ops.len()).sum::<usize>() + w.programs.iter().map(|p| p.source.len() / 40).sum::<usize>()).sum()
}

// ---------------------------------------------------------------------------------------------

#[derive(Default)]
pub struct Evidence {
    pub evaluations: u64,
    pub distinct: std::collections::BTreeSet<u64>,
    pub rule: String,
    pub samples: Vec<serde_json::Value>,
    pub exhaustive: Option<bool>,
    pub extra: BTreeMap<String, serde_json::Value>,
    pub assumptions: Vec<String>,
    pub faults_injected: BTreeMap<String, u64>,
    pub probes: BTreeMap<String, u64>,
    pub sessions: u64,
    pub worlds: u64,
    pub yields: u64,
    pub switches: u64,
    pub interleavings: std::collections::BTreeSet<u64>,
    pub worker_errors: u64,
}

impl Evidence {
    pub fn absorb_world(&mut self, w: &WorldResult) {
        self.worlds += 1;
        self.yields += w.sched.yields;
        self.switches += w.sched.switches.len() as u64;
        if w.sched.switches_inside_runs > 0 {
            self.interleavings.insert(w.sched.interleaving_digest);
        }
        for (k, v) in &w.probes {
            *self.probes.entry(k.clone()).or_insert(0) += v;
        }
        *self.probes.entry("switches_inside_runs".into()).or_insert(0) += w.sched.switches_inside_runs;
        *self.probes.entry("switches_between_runs_of_same_program".into()).or_insert(0) += w.sched.switches_same_program;
        for (site, n) in &w.sched.switch_sites {
            *self.probes.entry(format!("switch_at_{site}")).or_insert(0) += n;
        }
        if w.sched.blocked_yields > 0 {
            *self.probes.entry("yields_blocked_on_a_lock_held_by_a_parked_node".into()).or_insert(0) += w.sched.blocked_yields;
        }
        if w.sched.capped {
            *self.probes.entry("worlds_hit_yield_cap".into()).or_insert(0) += 1;
        }
        for o in &w.obs {
            for (k, v) in &o.fired {
                *self.faults_injected.entry(k.clone()).or_insert(0) += *v as u64;
            }
        }
    }

    pub fn write(&self, ctx: &Ctx, level: &str, violations: u32, known_seen: &[String]) {
        let wall = ctx.start.elapsed().as_secs_f64();
        let mut cov = serde_json::Map::new();
        cov.insert("evaluations".into(), self.evaluations.into());
        cov.insert("distinct_nontrivial".into(), (self.distinct.len() as u64).into());
        cov.insert("rule".into(), self.rule.clone().into());
        cov.insert("samples".into(), serde_json::Value::Array(self.samples.clone()));
        if let Some(e) = self.exhaustive {
            cov.insert("exhaustive".into(), e.into());
        }
        cov.insert("sessions".into(), self.sessions.into());
        cov.insert("worlds".into(), self.worlds.into());
        cov.insert("sessions_per_hour".into(), ((self.sessions as f64 / wall.max(0.001) * 3600.0) as u64).into());
        cov.insert("worlds_per_hour".into(), ((self.worlds as f64 / wall.max(0.001) * 3600.0) as u64).into());
        cov.insert("simulated_time".into(), serde_json::json!({
            "logical_steps_yields": self.yields,
            "note": "VRL has no timers; simulated time is the logical step counter (yield points executed) plus the pinned wall-clock instant of each world"
        }));
        cov.insert("context_switches".into(), self.switches.into());
        cov.insert("distinct_interleavings".into(), serde_json::json!({
            "count": self.interleavings.len(),
            "measure": "distinct digests of the (node, yield-site) sequence at which the running node changed, over worlds with >= 1 switch while two nodes were inside a Run"
        }));
        cov.insert("faults_injected".into(), serde_json::to_value(&self.faults_injected).unwrap());
        cov.insert("probes".into(), serde_json::to_value(&self.probes).unwrap());
        cov.insert("worker_errors".into(), self.worker_errors.into());
        cov.insert("known_findings_seen".into(), serde_json::to_value(known_seen).unwrap());
        cov.insert("components".into(), serde_json::json!({
            "real": ["vrl lexer/parser/compiler/type checker/runtime", "all stdlib functions incl. C dependencies", "TargetValue / TargetValueRef", "std::fs", "std::sync primitives", "OS threads (one runs at a time)"],
            "simulated_seam": ["scheduler (baton passing at yield points)", "getrandom (hash seeds)", "wall clock at the 5 non-exempt Utc::now sites", "TZ environment", "Target wrapper (SimTarget) with fault plan", "file states in a scratch directory", "address-space layout (ASLR off + salt)"],
            "stub": [],
            "not_simulated": ["network functions (http_request, dns_lookup, reverse_dns)"]
        }));
        cov.insert("vrl_tree".into(), vrl_tree_id().into());
        cov.insert("sync_instrumentation".into(), (!verif_dir().join("run/.uninstrumented").exists()).into());
        for (k, v) in &self.extra {
            cov.insert(k.clone(), v.clone());
        }
        let ev = serde_json::json!({
            "property_id": ctx.property,
            "tier": if ctx.quick() { "quick" } else { "thorough" },
            "seed": ctx.seed,
            "level": level,
            "coverage": cov,
            "assumptions": self.assumptions,
            "wall_s": wall,
            "violations": violations,
        });
        let dir = verif_dir().join("evidence");
        let _ = std::fs::create_dir_all(&dir);
        let path: PathBuf = dir.join(format!("{}.json", ctx.property));
        std::fs::write(&path, serde_json::to_string_pretty(&ev).unwrap()).expect("write evidence");
        println!("evidence: {} (evaluations={}, distinct_nontrivial={}, worlds={}, wall={:.1}s)", path.display(), self.evaluations, self.distinct.len(), self.worlds, wall);
    }
}

/// Standard exit: 0 = held (known findings printed), 1 = violation, 2 = harness error.
pub fn exit_with(v: &Verdict) -> ! {
    if v.violations > 0 {
        std::process::exit(1);
    }
    if v.harness_errors > 0 {
        std::process::exit(2);
    }
    std::process::exit(0);
}

pub fn worker_error_violation(property: &str, e: &WorkerError, session: &SessionSpec) -> Violation {
    let prog = session.worlds.iter().flat_map(|w| w.programs.iter()).map(|p| format!("{}\n{}", p.label, p.source)).collect::<Vec<_>>().join("\n---\n");
    Violation {
        property: property.to_string(),
        class: match e {
            WorkerError::Died(_) => "process-abort".into(),
            WorkerError::Hung(_) => "hang".into(),
            WorkerError::Garbled(_) => "harness-garbled".into(),
        },
        at: "session".into(),
        program: prog,
        observed: e.to_string(),
        expected: "session completes".into(),
        note: String::new(),
    }
}
