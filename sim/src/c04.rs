//! C04 — compiling and running never panics the host; environment-fault slice (DESIGN 4.6).
//! Enumerated: file-system states of every file a VRL function reads (at compile time or at first use).
//! Plus fault-free corpus worlds under all scheduler modes, looking only for panics and aborts.

use crate::batch::{pack, run_and_judge};
use crate::c14;
use crate::check::*;
use crate::driver::WorkerError;
use crate::genprog;
use crate::judge::{died_pub, prog_desc};
use crate::prng::{fnv, mix, Rng};
use crate::sched::Policy;
use crate::spec::*;
use crate::worker::repo_dir;

type Res = Result<SessionResult, WorkerError>;

pub fn judge(session: &SessionSpec, res: &Res) -> Result<Vec<Violation>, String> {
    let res = match res {
        Ok(r) => r,
        Err(e) => return died_pub("C04", e, session, true),
    };
    let mut out = vec![];
    for (w, wr) in session.worlds.iter().zip(res.worlds.iter()) {
        let files = if w.files.is_empty() { String::new() } else { format!("file states: {}", serde_json::to_string(&w.files).unwrap()) };
        for (pi, pre) in wr.precompiled.iter().enumerate() {
            if let Some(o) = pre {
                if o.starts_with("PANIC") {
                    out.push(Violation {
                        property: "C04".into(),
                        class: "panic".into(),
                        at: format!("world {} precompilation of program {pi}", w.id),
                        program: prog_desc(w, pi),
                        observed: o.lines().next().unwrap_or("").to_string(),
                        expected: "compile returns diagnostics".into(),
                        note: files.clone(),
                    });
                }
            }
        }
        for o in &wr.obs {
            if !o.panicked {
                continue;
            }
            let prog = match w.nodes.get(o.node).and_then(|n| n.ops.get(o.op)) {
                Some(Op::Run { prog, .. }) | Some(Op::Compile { prog }) => *prog,
                _ => 0,
            };
            let line = o.outcome.lines().find(|l| l.contains("PANIC")).unwrap_or("").to_string();
            out.push(Violation {
                property: "C04".into(),
                class: "panic".into(),
                at: format!("world {} node {} op {} ({})", w.id, o.node, o.op, o.kind),
                program: prog_desc(w, prog),
                observed: line,
                expected: "no panic".into(),
                note: files.clone(),
            });
        }
        for h in &wr.monitor_hits {
            if h.monitor == "harness" {
                return Err(format!("world {}: {}", w.id, h.what));
            }
        }
    }
    Ok(out)
}

struct Consumer {
    name: &'static str,
    /// fixture path relative to /repo
    fixture: &'static str,
    /// source template; `@F@` = the file path
    source: &'static str,
    event: &'static str,
    text_file: bool,
    /// file is read while the program runs (not at compile time)
    runtime_read: bool,
}

const CONSUMERS: &[Consumer] = &[
    Consumer { name: "parse_proto", fixture: "tests/data/protobuf/test_protobuf/v1/test_protobuf.desc", source: "parse_proto!(decode_base64!(\"Cgdzb21lb25lIggKBjEyMzQ1Ng==\"), \"@F@\", \"test_protobuf.v1.Person\")\n", event: "{}", text_file: false, runtime_read: false },
    Consumer { name: "encode_proto", fixture: "tests/data/protobuf/test_protobuf/v1/test_protobuf.desc", source: "encode_base64(encode_proto!({\"name\": \"someone\", \"phones\": [{\"number\": \"123456\"}]}, \"@F@\", \"test_protobuf.v1.Person\"))\n", event: "{}", text_file: false, runtime_read: false },
    Consumer { name: "parse_proto(maps)", fixture: "tests/data/protobuf/test_protobuf_maps/v1/test_protobuf_maps.desc", source: "parse_proto!(encode_proto!({\"by_string\": {\"a\": \"1\"}, \"by_int32\": {\"1\": \"a\"}}, \"@F@\", \"test_protobuf_maps.v1.Maps\"), \"@F@\", \"test_protobuf_maps.v1.Maps\")\n", event: "{}", text_file: false, runtime_read: false },
    Consumer { name: "encode_proto(proto3)", fixture: "tests/data/protobuf/test_protobuf3/v1/test_protobuf3.desc", source: "encode_base64(encode_proto!({\"name\": \"someone\", \"job_description\": \"x\"}, \"@F@\", \"test_protobuf3.v1.Person\"))\n", event: "{}", text_file: false, runtime_read: false },
    Consumer { name: "parse_groks", fixture: "tests/data/grok/aliases.json", source: "parse_groks!(\"username=foo\", patterns: [\"%{PATTERN_A}\"], alias_sources: [\"@F@\"])\n", event: "{}", text_file: true, runtime_read: false },
    Consumer { name: "parse_etld", fixture: "lib/tests/tests/functions/custom_public_suffix_list.dat", source: "parse_etld!(\"vector.acmecorp\", psl: \"@F@\")\n", event: "{}", text_file: true, runtime_read: false },
    Consumer { name: "validate_json_schema(email)", fixture: "tests/data/jsonschema/validate_json_schema/schema_with_email_format.json", source: ".ok, .err = validate_json_schema(string!(.doc), \"@F@\", false)\n.\n", event: "{\"doc\": \"{ \\\"productUser\\\": \\\"valid@email.com\\\" }\"}", text_file: true, runtime_read: true },
    Consumer { name: "validate_json_schema(custom)", fixture: "tests/data/jsonschema/validate_json_schema/schema_with_custom_format.json", source: ".ok, .err = validate_json_schema(string!(.doc), \"@F@\", true)\n.\n", event: "{\"doc\": \"{ \\\"productUser\\\": \\\"x\\\" }\"}", text_file: true, runtime_read: true },
    Consumer { name: "validate_json_schema(arrays)", fixture: "tests/data/jsonschema/validate_json_schema/schema_arrays_of_things.json", source: ".ok, .err = validate_json_schema(string!(.doc), \"@F@\", false)\n.\n", event: "{\"doc\": \"{\\\"fruits\\\": [\\\"apple\\\"], \\\"vegetables\\\": [{\\\"veggieName\\\": \\\"potato\\\", \\\"veggieLike\\\": true}]}\"}", text_file: true, runtime_read: true },
];

fn world_for(c: &Consumer, id: String, file_name: &str, state: Option<FileKind>, mid: Option<FileKind>, two_nodes: bool, wrong_message: bool, seed: u64) -> WorldSpec {
    let mut source = c.source.replace("@F@", &format!("@DIR@/{file_name}"));
    if wrong_message {
        source = source.replace("test_protobuf.v1.Person", "no.such.Message").replace("test_protobuf_maps.v1.Maps", "test_protobuf_maps.v1.").replace("test_protobuf3.v1.Person", "");
    }
    let event: serde_json::Value = serde_json::from_str(c.event).unwrap();
    let mut ops = vec![Op::Compile { prog: 0 }, Op::Run { prog: 0, event: 0, fresh_runtime: true, faults: FaultPlan::default(), tag: String::new() }];
    if let Some(m) = mid {
        // the file changes between compile and run, and between two runs (interacts with the schema cache)
        ops.push(Op::SetFile { file: FileState { name: file_name.to_string(), state: m } });
        ops.push(Op::Run { prog: 0, event: 0, fresh_runtime: true, faults: FaultPlan::default(), tag: String::new() });
        ops.push(Op::Compile { prog: 0 });
        ops.push(Op::Run { prog: 0, event: 0, fresh_runtime: true, faults: FaultPlan::default(), tag: String::new() });
    }
    let nodes = (0..if two_nodes { 2 } else { 1 }).map(|_| NodeSpec { tz: "UTC".into(), hash_seed: 1, own_clone: false, ref_backing: false, ops: ops.clone() }).collect();
    WorldSpec {
        id,
        clock: Some(c14::T0),
        coord_hash_seed: 1,
        programs: vec![ProgramSpec { source, read_only: vec![], precompile: false, label: format!("F:{}", c.name) }],
        events: vec![EventSpec { value: event, metadata: None, secrets: Default::default() }],
        nodes,
        sched: SchedSpec { policy: Policy::Random { p: 0.3 }, seed, max_yields: 100_000 },
        files: state.map(|s| vec![FileState { name: file_name.to_string(), state: s }]).unwrap_or_default(),
        monitors: vec![],
        fresh_threads: false,
    }
}

pub fn run(ctx: &Ctx) -> ! {
    let mut ev = Evidence::default();
    let mut rep = Reporter::new(ctx);
    let mut rng = Rng::new(mix(ctx.seed, 0xC04));
    let mut worlds = vec![];
    let mut kinds: std::collections::BTreeMap<String, u64> = Default::default();
    let mut n = 0usize;
    let mut exhaustive_bits = true;
    for c in CONSUMERS {
        let size = std::fs::metadata(repo_dir().join(c.fixture)).map(|m| m.len()).unwrap_or(0);
        let content = |t: Option<u64>, f: Option<u64>, a: Option<&str>| FileKind::Content { from: c.fixture.to_string(), truncate: t, flip_bit: f, append: a.map(|s| s.to_string()), mtime: None };
        let mut add = |kind: &str, state: Option<FileKind>, mid: Option<FileKind>, name: Option<String>, wrong: bool, rng: &mut Rng, ev: &mut Evidence| {
            n += 1;
            // a fresh file name per world: validate_json_schema caches by path for the life of the process
            let fname = name.unwrap_or_else(|| format!("f{n}.dat"));
            let two = rng.chance(0.15);
            worlds.push(world_for(c, format!("file-{n}"), &fname, state, mid, two, wrong, rng.next_u64()));
            *kinds.entry(kind.to_string()).or_insert(0) += 1;
            ev.distinct.insert(fnv(format!("{}|{kind}|{n}", c.name).as_bytes()));
        };
        add("valid", Some(content(None, None, None)), None, None, false, &mut rng, &mut ev);
        add("absent", Some(FileKind::Absent), None, None, false, &mut rng, &mut ev);
        add("empty", Some(FileKind::Bytes { hex: String::new() }), None, None, false, &mut rng, &mut ev);
        add("directory", Some(FileKind::Directory), None, None, false, &mut rng, &mut ev);
        add("dangling_symlink", Some(FileKind::DanglingSymlink), None, None, false, &mut rng, &mut ev);
        add("symlink_loop", Some(FileKind::SymlinkLoop), None, None, false, &mut rng, &mut ev);
        add("path_through_file", Some(FileKind::ThroughFile), None, Some(format!("reg-{}/child.dat", c.name.replace(['(', ')'], "_"))), false, &mut rng, &mut ev);
        add("name_too_long", None, None, Some(format!("{}.dat", "n".repeat(300))), false, &mut rng, &mut ev);
        // unusual file metadata: modification times before the epoch, at the epoch, far in the future
        for (k, t) in [("mtime_before_epoch", -86_400i64), ("mtime_1901", -2_147_483_648), ("mtime_epoch", 0), ("mtime_year_2262", 9_223_372_036), ("mtime_year_9999", 253_402_300_799)] {
            add(k, Some(FileKind::Content { from: c.fixture.to_string(), truncate: None, flip_bit: None, append: None, mtime: Some(t) }), None, None, false, &mut rng, &mut ev);
        }
        add("trailing_garbage", Some(content(None, None, Some("\u{0}\u{1}garbage{{{"))), None, None, false, &mut rng, &mut ev);
        add("wrong_kind_json", Some(FileKind::Content { from: "tests/data/grok/aliases.json".into(), truncate: None, flip_bit: None, append: None, mtime: None }), None, None, false, &mut rng, &mut ev);
        add("wrong_kind_descriptor", Some(FileKind::Content { from: "tests/data/protobuf/test/v1/test.desc".into(), truncate: None, flip_bit: None, append: None, mtime: None }), None, None, false, &mut rng, &mut ev);
        add("non_utf8", Some(FileKind::Bytes { hex: "fffe7b22613a2022c328227d80".into() }), None, None, false, &mut rng, &mut ev);
        add("json_scalar", Some(FileKind::Bytes { hex: "3432".into() }), None, None, false, &mut rng, &mut ev);
        add("json_deep", Some(FileKind::Bytes { hex: "5b".repeat(300) }), None, None, false, &mut rng, &mut ev);
        // well-formed content of an odd shape, per kind of file
        let odd: &[&str] = if c.name.starts_with("parse_groks") {
            &["{\"A\": 1}", "{\"A\": null, \"B\": [\"x\"]}", "{\"\": \"x\"}", "{\"PATTERN_A\": \"%{\"}", "{\"A\\u0000\": \"x\"}", "{\"PATTERN_A\": \"%{NOSUCH:x}\"}", "{\"PATTERN_A\": \"(\"}", "{\"PATTERN_A\": \"username=%{USERNAME:username\"}", "{}", "[]", "null", "\"s\"", "{\"PATTERN_A\": {\"nested\": \"x\"}}", " ", "\n", "{\"PATTERN_A\": [\"username=\", 1]}", "{\"PATTERN_A\": [\"a\", \"b\"]}", "{\"PATTERN_A\": [1, \"a\", null, {}]}", "{\"PATTERN_A\": [], \"PATTERN_B\": [[\"x\"]]}", "{\"PATTERN_A\": true, \"PATTERN_B\": 1.5}", "{\"PATTERN_A\": \"%{WORD:w}\", \"WORD\": \"[0-9]+\", \"USERNAME\": \"x\"}", "{\"PATTERN_A\": \"%{PATTERN_B}\", \"PATTERN_B\": \"%{PATTERN_C}\", \"PATTERN_C\": \"username=%{USERNAME:username}\"}", "{\"PATTERN_A\": \"%{PATTERN_A:again}\"}"]
        } else if c.name.starts_with("parse_etld") {
            &["!", "*.", "*", "!\n*.\n", "acmecorp\r\n*.ck\r\n!www.ck\r\n", "acmecorp", "// only a comment\n", "\n\n\n", ".", "..", "a..b", "*.*.x", "!!x", "xn--\n", " acmecorp \n", "ACMECORP\n", "\u{feff}acmecorp\n", "a.b.c.d.e.f.g.h.i.j.k.acmecorp\n*.a.b.c.d.e.f.g.acmecorp\n!x.a.b.c.d.e.f.g.acmecorp\n", "*.acmecorp\n!vector.acmecorp\n", "!acmecorp\n", "*\n!vector.acmecorp\n", "acmecorp\nacmecorp\nacmecorp\n"]
        } else if c.name.starts_with("validate_json_schema") {
            &["true", "false", "{\"$ref\": \"#\"}", "{\"properties\": []}", "{\"type\": \"string\", \"format\": 5}", "{\"$id\": 7}", "{\"type\": [\"string\", 3]}", "{\"$schema\": \"http://unknown.example/schema\"}", "[]", "\"s\"", "null", "{\"type\": \"object\", \"properties\": {\"productUser\": {\"$ref\": \"#/definitions/missing\"}}}", "{\"type\": \"object\", \"required\": \"productUser\"}", "{\"pattern\": \"(\"}", "{\"properties\": {\"productUser\": {\"type\": \"string\", \"pattern\": \"[\"}}}", "{\"$ref\": \"http://example.com/remote.json\"}", "{\"$ref\": \"file:///etc/passwd\"}", "{\"minimum\": \"x\", \"multipleOf\": 0}", "{\"enum\": 3}", "{\"$defs\": {\"a\": {\"$ref\": \"#/$defs/b\"}, \"b\": {\"$ref\": \"#/$defs/a\"}}, \"$ref\": \"#/$defs/a\"}", "{\"$defs\": {\"a\": {\"properties\": {\"productUser\": {\"$ref\": \"#/$defs/a\"}}}}, \"$ref\": \"#/$defs/a\"}", "{\"type\": \"object\", \"properties\": {\"productUser\": {\"type\": \"string\", \"format\": \"email\", \"maxLength\": -1}}}", "{\"allOf\": [], \"anyOf\": [], \"oneOf\": []}", "{\"$schema\": 5, \"$id\": \"::\"}"]
        } else {
            &[]
        };
        for (oi, text) in odd.iter().enumerate() {
            let hex: String = text.as_bytes().iter().map(|b| format!("{b:02x}")).collect();
            add(&format!("odd_content_{oi}"), Some(FileKind::Bytes { hex }), None, None, false, &mut rng, &mut ev);
        }
        // a long line / a large but valid object
        if c.name.starts_with("parse_etld") {
            let hex: String = format!("{}\nacmecorp\n", "x".repeat(5000)).bytes().map(|b| format!("{b:02x}")).collect();
            add("long_line", Some(FileKind::Bytes { hex }), None, None, false, &mut rng, &mut ev);
        }
        if c.name.starts_with("parse_groks") {
            // long rules that fail in the final grok compilation, with multi-byte characters at every offset mod 4
            // (error paths like to echo a shortened rule)
            for pad in 0..4 {
                for len in [100usize, 255, 300, 510, 1020, 2050, 4100] {
                    let rule = format!("{}{}(", "a".repeat(pad), "\u{e9}\u{4e16}".repeat(len / 5 + 1));
                    let text = format!("{{\"PATTERN_A\": \"%{{PATTERN_B}}\", \"PATTERN_B\": \"{rule}\"}}");
                    let hex: String = text.bytes().map(|b| format!("{b:02x}")).collect();
                    add("long_failing_rule", Some(FileKind::Bytes { hex }), None, None, false, &mut rng, &mut ev);
                }
            }
            let big = format!("{{{}}}", (0..400).map(|i| format!("\"P{i}\": \"v{i}\"")).collect::<Vec<_>>().join(", "));
            let hex: String = big.bytes().map(|b| format!("{b:02x}")).collect();
            add("many_entries", Some(FileKind::Bytes { hex }), None, None, false, &mut rng, &mut ev);
        }
        if !c.text_file {
            for other in ["tests/data/protobuf/test_protobuf/v1/test_protobuf.desc", "tests/data/protobuf/test_protobuf3/v1/test_protobuf3.desc", "tests/data/protobuf/test_protobuf_maps/v1/test_protobuf_maps.desc"] {
                if other != c.fixture {
                    add("other_valid_descriptor_set", Some(FileKind::Content { from: other.into(), truncate: None, flip_bit: None, append: None, mtime: None }), None, None, false, &mut rng, &mut ev);
                }
            }
        }
        if !c.text_file {
            add("wrong_message_name", Some(content(None, None, None)), None, None, true, &mut rng, &mut ev);
        }
        // replaced / removed / truncated between compile and run, and between two runs
        for (k, m) in [("removed_mid_run", FileKind::Absent), ("emptied_mid_run", FileKind::Bytes { hex: String::new() }), ("truncated_mid_run", content(Some(size / 2), None, None)), ("replaced_by_other_kind_mid_run", FileKind::Content { from: "tests/data/grok/aliases.json".into(), truncate: None, flip_bit: None, append: None, mtime: None }), ("became_directory_mid_run", FileKind::Directory)] {
            add(k, Some(content(None, None, None)), Some(m), None, false, &mut rng, &mut ev);
            // appears only later
            add(&format!("absent_then_{k}"), Some(FileKind::Absent), Some(content(None, None, None)), None, false, &mut rng, &mut ev);
        }
        // every truncation prefix (short / torn write)
        for t in 0..size {
            add("truncation_prefix", Some(content(Some(t), None, None)), None, None, false, &mut rng, &mut ev);
        }
        // single-bit flips: all of them (thorough), a seeded quarter (quick)
        for b in 0..size * 8 {
            if ctx.quick() && std::env::var_os("VERIF_C04_SAMPLE_BITS").is_some() && rng.below(4) != 0 {
                exhaustive_bits = false;
                continue;
            }
            add("bit_flip", Some(content(None, Some(b), None)), None, None, false, &mut rng, &mut ev);
        }
    }
    // the same schema file used by program variants that differ in one argument, while the file changes over time
    // (caches keyed by (path, flag) with per-path side tables are only wrong for such histories)
    {
        let fixtures = ["tests/data/jsonschema/validate_json_schema/schema_with_email_format.json", "tests/data/jsonschema/validate_json_schema/schema_with_custom_format.json", "tests/data/jsonschema/validate_json_schema/schema_arrays_of_things.json"];
        let bad_states = [FileKind::Absent, FileKind::Bytes { hex: String::new() }, FileKind::Directory, FileKind::Bytes { hex: "7b2274797065223a".into() }, FileKind::Bytes { hex: "5b5d".into() }];
        let mut k = 0;
        for fx in fixtures {
            for bad in &bad_states {
                for order in 0..4 {
                    k += 1;
                    let fname = format!("v{k}.json");
                    let good = FileKind::Content { from: fx.to_string(), truncate: None, flip_bit: None, append: None, mtime: None };
                    let prog = |flag: bool| ProgramSpec { source: format!(".ok, .err = validate_json_schema(string!(.doc), \"@DIR@/{fname}\", {flag})\n.\n"), read_only: vec![], precompile: true, label: format!("F:validate_json_schema(variants,{flag})") };
                    let run = |p: usize| Op::Run { prog: p, event: 0, fresh_runtime: true, faults: FaultPlan::default(), tag: String::new() };
                    let set = |st: &FileKind| Op::SetFile { file: FileState { name: fname.clone(), state: st.clone() } };
                    let (a, b) = if order % 2 == 0 { (0, 1) } else { (1, 0) };
                    let mut ops = vec![run(a), run(b), set(bad), run(a), run(b), run(a), set(&good), run(b), run(a)];
                    if order >= 2 {
                        ops = vec![run(a), set(bad), run(b), run(a), set(&good), run(a), run(b), set(bad), run(b), run(a)];
                    }
                    worlds.push(WorldSpec {
                        id: format!("file-variants-{k}"),
                        clock: Some(c14::T0),
                        coord_hash_seed: 1,
                        programs: vec![prog(false), prog(true)],
                        events: vec![EventSpec { value: serde_json::json!({"doc": "{ \"productUser\": \"valid@email.com\" }"}), metadata: None, secrets: Default::default() }],
                        nodes: vec![NodeSpec { tz: "UTC".into(), hash_seed: 1, own_clone: false, ref_backing: false, ops }],
                        sched: SchedSpec { policy: Policy::Serial, seed: 0, max_yields: 100_000 },
                        files: vec![FileState { name: fname.clone(), state: good.clone() }],
                        monitors: vec![],
                        fresh_threads: false,
                    });
                    *kinds.entry("schema_variants_file_changes".into()).or_insert(0) += 1;
                    ev.distinct.insert(fnv(format!("variants|{k}").as_bytes()));
                }
            }
        }
    }
    // purpose-built VALID descriptor sets with unusual content: a message that uses a well-known type
    // (google.protobuf.Timestamp / Duration) which the set defines itself with non-standard field types, labels or
    // names; proto2 required / repeated / oneof uses of it. (The bundled fixtures never redefine a well-known type.)
    {
        fn varint(mut v: u64, out: &mut Vec<u8>) {
            while v >= 0x80 {
                out.push((v as u8 & 0x7f) | 0x80);
                v >>= 7;
            }
            out.push(v as u8);
        }
        fn len_field(no: u64, data: &[u8], out: &mut Vec<u8>) {
            varint(no << 3 | 2, out);
            varint(data.len() as u64, out);
            out.extend_from_slice(data);
        }
        fn int_field(no: u64, v: u64, out: &mut Vec<u8>) {
            varint(no << 3, out);
            varint(v, out);
        }
        // FieldDescriptorProto: name=1, number=3, label=4, type=5, type_name=6, oneof_index=9
        fn field(name: &str, number: u64, label: u64, ty: u64, type_name: Option<&str>, oneof: Option<u64>) -> Vec<u8> {
            let mut f = vec![];
            len_field(1, name.as_bytes(), &mut f);
            int_field(3, number, &mut f);
            int_field(4, label, &mut f);
            int_field(5, ty, &mut f);
            if let Some(t) = type_name {
                len_field(6, t.as_bytes(), &mut f);
            }
            if let Some(o) = oneof {
                int_field(9, o, &mut f);
            }
            f
        }
        // DescriptorProto: name=1, field=2, oneof_decl=8
        fn message(name: &str, fields: &[Vec<u8>], oneofs: &[&str]) -> Vec<u8> {
            let mut m = vec![];
            len_field(1, name.as_bytes(), &mut m);
            for f in fields {
                len_field(2, f, &mut m);
            }
            for o in oneofs {
                let mut d = vec![];
                len_field(1, o.as_bytes(), &mut d);
                len_field(8, &d, &mut m);
            }
            m
        }
        // FileDescriptorProto: name=1, package=2, dependency=3, message_type=4, syntax=12
        fn file(name: &str, package: &str, deps: &[&str], messages: &[Vec<u8>], syntax: &str) -> Vec<u8> {
            let mut f = vec![];
            len_field(1, name.as_bytes(), &mut f);
            len_field(2, package.as_bytes(), &mut f);
            for d in deps {
                len_field(3, d.as_bytes(), &mut f);
            }
            for m in messages {
                len_field(4, m, &mut f);
            }
            len_field(12, syntax.as_bytes(), &mut f);
            f
        }
        let hex = |b: &[u8]| -> String { b.iter().map(|x| format!("{x:02x}")).collect() };
        // (well-known type, its two field names, standard types)
        let wkts = [("Timestamp", "seconds", "nanos"), ("Duration", "seconds", "nanos")];
        let types: [u64; 9] = [3, 5, 9, 1, 13, 4, 8, 12, 17];
        let mut k = 0;
        for (wkt, f1, f2) in wkts {
            for (a, b, n1, n2, label, syntax, shape) in types
                .iter()
                .flat_map(|a| types.iter().map(move |b| (*a, *b)))
                .filter(|(a, b)| (*a, *b) != (3, 5) && (*a == 3 || *b == 5 || a == b))
                .map(|(a, b)| (a, b, f1, f2, 1u64, "proto3", 0))
                .chain([(3, 5, "secs", "nanos", 1, "proto3", 0), (3, 5, f1, "nano", 1, "proto3", 0), (3, 5, f1, f2, 3, "proto3", 1), (3, 5, f1, f2, 2, "proto2", 2), (3, 5, f1, f2, 1, "proto3", 3), (3, 3, f1, f2, 2, "proto2", 2)])
            {
                k += 1;
                let wkt_msg = if shape == 1 {
                    // repeated fields inside the well-known type
                    message(wkt, &[field(n1, 1, 3, a, None, None), field(n2, 2, 3, b, None, None)], &[])
                } else {
                    message(wkt, &[field(n1, 1, label.min(2), a, None, None), field(n2, 2, label.min(2), b, None, None)], &[])
                };
                let tn = format!(".google.protobuf.{wkt}");
                let m = match shape {
                    1 => message("M", &[field("ts", 1, 3, 11, Some(&tn), None), field("name", 2, 1, 9, None, None)], &[]),
                    3 => message("M", &[field("ts", 1, 1, 11, Some(&tn), Some(0)), field("name", 2, 1, 9, None, Some(0))], &["pick"]),
                    _ => message("M", &[field("ts", 1, label.min(2), 11, Some(&tn), None), field("name", 2, 1, 9, None, None)], &[]),
                };
                let wkt_file_name = format!("google/protobuf/{}.proto", wkt.to_lowercase());
                let mut set = vec![];
                len_field(1, &file(&wkt_file_name, "google.protobuf", &[], &[wkt_msg], syntax), &mut set);
                len_field(1, &file("t.proto", "t", &[&wkt_file_name], &[m], syntax), &mut set);
                let fname = format!("wkt{k}.desc");
                let value = if wkt == "Timestamp" { "\"2021-01-01T00:00:00.5Z\"" } else { "\"3.5s\"" };
                let source = format!(
                    ".a, .ae = encode_proto({{\"ts\": {value}, \"name\": \"x\"}}, \"@DIR@/{fname}\", \"t.M\")\n.b, .be = encode_proto({{\"ts\": [{value}], \"name\": \"x\"}}, \"@DIR@/{fname}\", \"t.M\")\n.c, .ce = encode_proto({{\"ts\": t'2021-01-01T00:00:00Z', \"name\": 1}}, \"@DIR@/{fname}\", \"t.M\")\n.d, .de = encode_proto({{\"ts\": {{\"{n1}\": 1, \"{n2}\": 2}}}}, \"@DIR@/{fname}\", \"t.M\")\n.e, .ee = parse_proto(decode_base64!(\"CgQIARACEgF4\"), \"@DIR@/{fname}\", \"t.M\")\n.f, .fe = parse_proto(decode_base64!(\"CgYKAXgSAXkSAXg=\"), \"@DIR@/{fname}\", \"t.M\")\n.\n"
                );
                worlds.push(WorldSpec {
                    id: format!("file-wkt-{k}"),
                    clock: Some(c14::T0),
                    coord_hash_seed: 1,
                    programs: vec![ProgramSpec { source, read_only: vec![], precompile: false, label: format!("F:proto(own {wkt}, types {a}/{b}, shape {shape})") }],
                    events: vec![EventSpec { value: serde_json::json!({}), metadata: None, secrets: Default::default() }],
                    nodes: vec![NodeSpec { tz: "UTC".into(), hash_seed: 1, own_clone: false, ref_backing: false, ops: vec![Op::Compile { prog: 0 }, Op::Run { prog: 0, event: 0, fresh_runtime: true, faults: FaultPlan::default(), tag: String::new() }] }],
                    sched: SchedSpec { policy: Policy::Serial, seed: 0, max_yields: 100_000 },
                    files: vec![FileState { name: fname, state: FileKind::Bytes { hex: hex(&set) } }],
                    monitors: vec![],
                    fresh_threads: false,
                });
                *kinds.entry("valid_descriptor_redefining_well_known_type".into()).or_insert(0) += 1;
                ev.distinct.insert(fnv(format!("wkt|{k}").as_bytes()));
            }
        }
    }
    let file_cases = worlds.len() as u64;
    ev.extra.insert("file_state_cases".into(), serde_json::to_value(&kinds).unwrap());
    ev.extra.insert("file_consumers".into(), serde_json::to_value(CONSUMERS.iter().map(|c| c.name).collect::<Vec<_>>()).unwrap());
    ev.extra.insert("eacces_note".into(), "the sandbox runs as root, so EACCES cannot be produced by chmod; ENOENT, EISDIR, ELOOP, ENOTDIR and ENAMETOOLONG stand in for it".into());
    let sessions = pack(ctx.seed, worlds, 400);
    let mut samples = vec![];
    if let Some(s) = sessions.first() {
        for w in s.worlds.iter().skip(1).step_by(9).take(3) {
            samples.push(serde_json::json!({"program": w.programs[0].source, "files": w.files, "ops": w.nodes[0].ops}));
        }
    }
    // worlds of one session share the process (schema cache, lazily initialised statics): history is part of the
    // case, so the whole session is the candidate and the minimiser drops worlds
    let _ = run_and_judge(ctx, "c04", &sessions, &mut rep, &mut ev, false);
    ev.evaluations += file_cases;
    println!("file states: {file_cases} cases ({:.1}s)", ctx.start.elapsed().as_secs_f64());

    // --- fault-free corpus + generator worlds under all scheduler modes: panics that need an interleaving or a history
    let items = c14::items(true);
    let n_sessions = if ctx.quick() { 600 } else { 8_000 };
    let max_nodes = if ctx.quick() { 4 } else { 8 };
    let mut sessions = vec![];
    for j in 0..n_sessions {
        let mut r = rng.derive(j as u64);
        let (s, _) = c14::gen_session(&mut r, ctx.seed, &items, &[], max_nodes, 6, format!("p{j}"));
        sessions.push(s);
    }
    // generator G programs (compile + run, one node): target-operation shapes the corpora do not contain
    let n_gen = if ctx.quick() { 12_000 } else { 150_000 };
    let mut gworlds = vec![];
    for i in 0..n_gen {
        let mut sub = rng.derive(0x6000_0000 + i as u64);
        let source = genprog::Gen::new(&mut sub).program();
        let event = genprog::event(&mut sub);
        gworlds.push(WorldSpec {
            id: format!("g{i}"),
            clock: Some(c14::T0),
            coord_hash_seed: 1,
            programs: vec![ProgramSpec { source, read_only: vec![], precompile: true, label: format!("G:{}:{i}", ctx.seed) }],
            events: vec![event],
            nodes: vec![NodeSpec { tz: "UTC".into(), hash_seed: 1, own_clone: false, ref_backing: false, ops: vec![Op::Run { prog: 0, event: 0, fresh_runtime: true, faults: FaultPlan::default(), tag: String::new() }] }],
            sched: SchedSpec { policy: Policy::Serial, seed: 0, max_yields: 100_000 },
            files: vec![],
            monitors: vec![],
            fresh_threads: false,
        });
    }
    sessions.extend(pack(ctx.seed, gworlds, 400));
    let before = ev.worlds;
    for (ci, chunk) in sessions.chunks(400).enumerate() {
        // the first chunk always runs; later ones only while the budget lasts
        if ci > 0 && ctx.out_of_time() {
            break;
        }
        let _ = run_and_judge(ctx, "c04", chunk, &mut rep, &mut ev, false);
    }
    ev.evaluations += ev.worlds - before;
    ev.extra.insert("fault_free_worlds".into(), (ev.worlds - before).into());
    ev.samples = samples;
    ev.exhaustive = Some(exhaustive_bits);
    ev.rule = "Environment-fault slice of C04 only. evaluations = file-state cases + fault-free worlds. For each file-consuming function (parse_proto, encode_proto, parse_groks alias_sources, parse_etld psl: file read at compile time; validate_json_schema: read at first use and cached) and each bundled fixture: absent, empty, directory, dangling symlink, symlink loop, path through a regular file, over-long name, every truncation prefix, single-bit flips (all in the thorough tier => exhaustive: true; a seeded quarter in the quick tier), trailing garbage, valid content of the wrong kind, non-UTF-8 bytes, wrong message name, file replaced / removed / truncated / created between compile and run and between two runs; then compile (diagnostics rendered) and run on 1-2 nodes. Then fault-free corpus (A+B+C) worlds on 1-8 nodes under all scheduler modes and generator-G programs, looking only for panics and aborts. Oracle: no panic in compile, Formatter::to_string or resolve, and the worker process survives. distinct_nontrivial = distinct (function, file-state case) pairs. Input-driven panics (the bulk of C04) are NOT addressed by this family.".into();
    ev.assumptions = vec![
        "catch_unwind around compile+render and resolve in the worker; aborts are seen by the driver as a dead worker".into(),
        "overflow checks are enabled in the simulator build (as in the debug builds the test-suite uses)".into(),
    ];
    let mut verdict = rep.finish(ctx);
    // a worker that could not run (spawn failure, wall-clock limit, garbled output) is a harness error, not a pass
    verdict.harness_errors += ev.worker_errors as u32;
    ev.write(ctx, "fault_enumeration", verdict.violations, &verdict.known_seen);
    exit_with(&verdict)
}
