//! Self-checks of the simulator (DESIGN 3.7): the same session spec, executed in independent fresh
//! processes at different driver parallelism, must yield byte-identical results (every observation,
//! every target-operation log digest, every scheduling decision).

use std::time::Duration;

use crate::c14;
use crate::c16;
use crate::c17;
use crate::check::{Ctx, Evidence};
use crate::driver;
use crate::prng::{mix, Rng};
use crate::spec::*;

fn fingerprint(r: &Result<SessionResult, driver::WorkerError>) -> String {
    match r {
        Ok(r) => serde_json::to_string(r).unwrap(),
        Err(e) => format!("ERR {e}"),
    }
}

pub fn determinism(n_seeds: usize) -> ! {
    let ctx = Ctx::new("selftest", crate::check::Tier::Quick);
    let items = c14::items(true);
    let mut ev = Evidence::default();
    let cases = c17::workload(&ctx, 600, &mut ev);
    let mut sessions: Vec<SessionSpec> = vec![];
    for i in 0..n_seeds {
        let mut r = Rng::new(mix(ctx.seed, 0x5E1F_0000 + i as u64));
        if i % 2 == 0 {
            // concurrent / history worlds with fresh threads and controlled hash seeds
            let (s, _) = c14::gen_session(&mut r, ctx.seed, &items, &[], 4, 4, format!("d{i}"));
            sessions.push(s);
        } else {
            // pooled worlds with target faults and both monitors
            let worlds = c16::target_worlds(&mut r, &cases, 12, 2, &["c15", "c16"], &format!("t{i}"));
            sessions.push(SessionSpec { seed: ctx.seed, tz_env: if i % 4 == 1 { Some("Asia/Kolkata".into()) } else { None }, layout_salt: (i % 7) as u32 * 13, worlds });
        }
    }
    let t = Duration::from_secs(300);
    println!("selftest determinism: {} sessions x 2 processes at parallelism 16 and 4, first {} also at parallelism 1 and through the exec path", sessions.len(), sessions.len().min(100));
    let a: Vec<String> = driver::run_all(&sessions, 16, t, |_, _| {}).iter().map(fingerprint).collect();
    let b: Vec<String> = driver::run_all(&sessions, 4, t, |_, _| {}).iter().map(fingerprint).collect();
    let head = &sessions[..sessions.len().min(100)];
    let c: Vec<String> = driver::run_all(head, 1, t, |_, _| {}).iter().map(fingerprint).collect();
    // and through the exec path (no fork server): a session must not care how its process came to be
    unsafe { std::env::set_var("VRL_SIM_NO_ZYGOTE", "1") };
    let d: Vec<String> = driver::run_all(head, 8, t, |_, _| {}).iter().map(fingerprint).collect();
    unsafe { std::env::remove_var("VRL_SIM_NO_ZYGOTE") };
    let mut mismatches = 0;
    for i in 0..sessions.len() {
        let mut bad = a[i] != b[i];
        if i < c.len() && (a[i] != c[i] || a[i] != d[i]) {
            bad = true;
        }
        if bad {
            mismatches += 1;
            if mismatches <= 5 {
                let (x, y) = if a[i] != b[i] { (&a[i], &b[i]) } else if a[i] != c[i] { (&a[i], &c[i]) } else { (&a[i], &d[i]) };
                let pos = x.bytes().zip(y.bytes()).position(|(p, q)| p != q).unwrap_or(x.len().min(y.len()));
                let lo = pos.saturating_sub(200);
                println!("MISMATCH session {i} ({}) at byte {pos}:\n  A: …{}\n  B: …{}", sessions[i].worlds[0].id, &x[lo..(pos + 200).min(x.len())], &y[lo..(pos + 200).min(y.len())]);
                let _ = std::fs::write(crate::worker::verif_dir().join("run").join(format!("mismatch-{i}.json")), serde_json::to_string_pretty(&sessions[i]).unwrap());
            }
        }
    }
    let errs = a.iter().filter(|s| s.starts_with("ERR")).count();
    println!("selftest determinism: sessions={} mismatches={mismatches} worker_errors={errs} wall={:.1}s", sessions.len(), ctx.start.elapsed().as_secs_f64());
    std::process::exit(if mismatches == 0 { 0 } else { 2 });
}
