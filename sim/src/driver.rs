//! Runs sessions in fresh worker processes (the unit of determinism and replay), in parallel.

use std::io::Write;
use std::process::{Command, Stdio};
use std::sync::atomic::{AtomicUsize, Ordering};
use std::sync::Mutex;
use std::time::{Duration, Instant};

use crate::spec::{SessionResult, SessionSpec};
use crate::worker::{repo_dir, verif_dir};

#[derive(Debug, Clone)]
pub enum WorkerError {
    /// the worker process died (abort, signal, non-zero exit) — message has status + stderr tail
    Died(String),
    /// no result within the wall-clock limit
    Hung(String),
    /// its output could not be parsed
    Garbled(String),
}

impl std::fmt::Display for WorkerError {
    fn fmt(&self, f: &mut std::fmt::Formatter<'_>) -> std::fmt::Result {
        match self {
            WorkerError::Died(s) => write!(f, "worker died: {s}"),
            WorkerError::Hung(s) => write!(f, "worker hung: {s}"),
            WorkerError::Garbled(s) => write!(f, "worker output garbled: {s}"),
        }
    }
}

pub fn parallelism() -> usize {
    std::env::var("VERIF_JOBS").ok().and_then(|s| s.parse().ok()).unwrap_or_else(|| {
        std::thread::available_parallelism().map(|n| n.get()).unwrap_or(4).min(16)
    })
}

pub fn run_one(spec: &SessionSpec, timeout: Duration) -> Result<SessionResult, WorkerError> {
    let exe = std::env::current_exe().expect("current_exe");
    let mut cmd = Command::new(exe);
    cmd.arg("session")
        .env_clear()
        .env("VERIF_DIR", verif_dir())
        .env("VERIF_REPO", repo_dir())
        .env("VRL_SIM_PAD", "x".repeat((spec.layout_salt % 4096) as usize))
        // examples with relative paths (tests/data/...) need cwd = /repo
        .current_dir(repo_dir())
        .stdin(Stdio::piped())
        .stdout(Stdio::piped())
        .stderr(Stdio::piped());
    if let Some(tz) = &spec.tz_env {
        cmd.env("TZ", tz);
    }
    // N11: the driver itself runs with ADDR_NO_RANDOMIZE (set in main); workers inherit the persona.
    // No pre_exec closure here: it would force fork() instead of posix_spawn() and a COW storm in the driver.
    let mut child = cmd.spawn().map_err(|e| WorkerError::Died(format!("spawn: {e}")))?;
    let input = serde_json::to_vec(spec).expect("serialise spec");
    let mut stdin = child.stdin.take().unwrap();
    let writer = std::thread::spawn(move || {
        let _ = stdin.write_all(&input);
    });
    let mut stdout = child.stdout.take().unwrap();
    let mut stderr = child.stderr.take().unwrap();
    let out_reader = std::thread::spawn(move || {
        let mut v = vec![];
        let _ = std::io::Read::read_to_end(&mut stdout, &mut v);
        v
    });
    let err_reader = std::thread::spawn(move || {
        let mut v = vec![];
        let _ = std::io::Read::read_to_end(&mut stderr, &mut v);
        v
    });
    let start = Instant::now();
    let status = loop {
        match child.try_wait() {
            Ok(Some(st)) => break Some(st),
            Ok(None) => {
                if start.elapsed() > timeout {
                    let _ = child.kill();
                    let _ = child.wait();
                    break None;
                }
                std::thread::sleep(Duration::from_millis(2));
            }
            Err(e) => return Err(WorkerError::Died(format!("wait: {e}"))),
        }
    };
    let _ = writer.join();
    let out = out_reader.join().unwrap_or_default();
    let err = err_reader.join().unwrap_or_default();
    let err_tail = {
        let s = String::from_utf8_lossy(&err);
        let t: Vec<&str> = s.lines().rev().take(12).collect();
        t.into_iter().rev().collect::<Vec<_>>().join("\n")
    };
    match status {
        None => Err(WorkerError::Hung(format!("no result after {:?}; stderr: {err_tail}", timeout))),
        Some(st) if !st.success() => Err(WorkerError::Died(format!("{st}; stderr: {err_tail}"))),
        Some(_) => {
            // the result is the last line of stdout
            let text = String::from_utf8_lossy(&out);
            let line = text.lines().rev().find(|l| l.starts_with('{')).unwrap_or("");
            serde_json::from_str::<SessionResult>(line).map_err(|e| WorkerError::Garbled(format!("{e}; stderr: {err_tail}")))
        }
    }
}

/// Run all sessions, `par` at a time. `on_done(index, result)` is called from worker threads in completion
/// order; results are also returned in input order.
pub fn run_all<F>(specs: &[SessionSpec], par: usize, timeout: Duration, on_done: F) -> Vec<Result<SessionResult, WorkerError>>
where
    F: Fn(usize, &Result<SessionResult, WorkerError>) + Sync,
{
    let next = AtomicUsize::new(0);
    let results: Mutex<Vec<Option<Result<SessionResult, WorkerError>>>> = Mutex::new((0..specs.len()).map(|_| None).collect());
    std::thread::scope(|s| {
        for _ in 0..par.max(1).min(specs.len().max(1)) {
            s.spawn(|| loop {
                let i = next.fetch_add(1, Ordering::SeqCst);
                if i >= specs.len() {
                    break;
                }
                let r = run_one(&specs[i], timeout);
                on_done(i, &r);
                results.lock().unwrap()[i] = Some(r);
            });
        }
    });
    results.into_inner().unwrap().into_iter().map(|r| r.unwrap()).collect()
}
