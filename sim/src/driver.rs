//! Runs sessions in fresh worker processes (the unit of determinism and replay), in parallel.

use std::io::Write;
use std::process::{Command, Stdio};
use std::sync::atomic::{AtomicUsize, Ordering};
use std::sync::Mutex;
use std::time::{Duration, Instant};

use crate::spec::{SessionResult, SessionSpec};
use crate::worker::{repo_dir, verif_dir};

#[derive(Debug, Clone)]
pub enum WorkerError {
    /// the worker process died (abort, signal, non-zero exit) — message has status + stderr tail
    Died(String),
    /// no result within the wall-clock limit
    Hung(String),
    /// its output could not be parsed
    Garbled(String),
}

impl std::fmt::Display for WorkerError {
    fn fmt(&self, f: &mut std::fmt::Formatter<'_>) -> std::fmt::Result {
        match self {
            WorkerError::Died(s) => write!(f, "worker died: {s}"),
            WorkerError::Hung(s) => write!(f, "worker hung: {s}"),
            WorkerError::Garbled(s) => write!(f, "worker output garbled: {s}"),
        }
    }
}

pub fn parallelism() -> usize {
    std::env::var("VERIF_JOBS").ok().and_then(|s| s.parse().ok()).unwrap_or_else(|| {
        std::thread::available_parallelism().map(|n| n.get()).unwrap_or(4).min(16)
    })
}

pub fn run_one(spec: &SessionSpec, timeout: Duration) -> Result<SessionResult, WorkerError> {
    let exe = std::env::current_exe().expect("current_exe");
    let mut cmd = Command::new(exe);
    cmd.arg("session")
        .env_clear()
        .env("VERIF_DIR", verif_dir())
        .env("VERIF_REPO", repo_dir())
        .env("VRL_SIM_PAD", "x".repeat((spec.layout_salt % 4096) as usize))
        // examples with relative paths (tests/data/...) need cwd = /repo
        .current_dir(repo_dir())
        .stdin(Stdio::piped())
        .stdout(Stdio::piped())
        .stderr(Stdio::piped());
    if let Some(tz) = &spec.tz_env {
        cmd.env("TZ", tz);
    }
    // N11: the driver itself runs with ADDR_NO_RANDOMIZE (set in main); workers inherit the persona.
    // No pre_exec closure here: it would force fork() instead of posix_spawn() and a COW storm in the driver.
    let mut child = cmd.spawn().map_err(|e| WorkerError::Died(format!("spawn: {e}")))?;
    let input = serde_json::to_vec(spec).expect("serialise spec");
    let mut stdin = child.stdin.take().unwrap();
    let writer = std::thread::spawn(move || {
        let _ = stdin.write_all(&input);
    });
    let mut stdout = child.stdout.take().unwrap();
    let mut stderr = child.stderr.take().unwrap();
    let out_reader = std::thread::spawn(move || {
        let mut v = vec![];
        let _ = std::io::Read::read_to_end(&mut stdout, &mut v);
        v
    });
    let err_reader = std::thread::spawn(move || {
        let mut v = vec![];
        let _ = std::io::Read::read_to_end(&mut stderr, &mut v);
        v
    });
    let start = Instant::now();
    let status = loop {
        match child.try_wait() {
            Ok(Some(st)) => break Some(st),
            Ok(None) => {
                if start.elapsed() > timeout {
                    let _ = child.kill();
                    let _ = child.wait();
                    break None;
                }
                std::thread::sleep(Duration::from_millis(2));
            }
            Err(e) => return Err(WorkerError::Died(format!("wait: {e}"))),
        }
    };
    let _ = writer.join();
    let out = out_reader.join().unwrap_or_default();
    let err = err_reader.join().unwrap_or_default();
    let err_tail = {
        let s = String::from_utf8_lossy(&err);
        let t: Vec<&str> = s.lines().rev().take(12).collect();
        t.into_iter().rev().collect::<Vec<_>>().join("\n")
    };
    match status {
        None => Err(WorkerError::Hung(format!("no result after {:?}; stderr: {err_tail}", timeout))),
        Some(st) if !st.success() => Err(WorkerError::Died(format!("{st}; stderr: {err_tail}"))),
        Some(_) => {
            // the result is the last line of stdout
            let text = String::from_utf8_lossy(&out);
            let line = text.lines().rev().find(|l| l.starts_with('{')).unwrap_or("");
            serde_json::from_str::<SessionResult>(line).map_err(|e| WorkerError::Garbled(format!("{e}; stderr: {err_tail}")))
        }
    }
}

/// Driver-side handle of a fork server (see zygote.rs).
pub struct Zygote {
    child: std::process::Child,
    stdin: std::process::ChildStdin,
    stdout: std::process::ChildStdout,
    stderr_tail: std::sync::Arc<Mutex<Vec<u8>>>,
    dead: bool,
}

impl Zygote {
    pub fn spawn() -> Result<Zygote, WorkerError> {
        use std::os::unix::process::CommandExt;
        let exe = std::env::current_exe().expect("current_exe");
        let mut cmd = Command::new(exe);
        cmd.arg("zygote")
            .env_clear()
            .env("VERIF_DIR", verif_dir())
            .env("VERIF_REPO", repo_dir())
            .current_dir(repo_dir())
            .process_group(0)
            .stdin(Stdio::piped())
            .stdout(Stdio::piped())
            .stderr(Stdio::piped());
        let mut child = cmd.spawn().map_err(|e| WorkerError::Died(format!("spawn zygote: {e}")))?;
        let stdin = child.stdin.take().unwrap();
        let stdout = child.stdout.take().unwrap();
        let mut stderr = child.stderr.take().unwrap();
        let tail = std::sync::Arc::new(Mutex::new(Vec::new()));
        let t2 = tail.clone();
        std::thread::spawn(move || {
            let mut buf = [0u8; 4096];
            loop {
                match std::io::Read::read(&mut stderr, &mut buf) {
                    Ok(0) | Err(_) => break,
                    Ok(n) => {
                        let mut t = t2.lock().unwrap();
                        t.extend_from_slice(&buf[..n]);
                        let len = t.len();
                        if len > 16384 {
                            t.drain(..len - 16384);
                        }
                    }
                }
            }
        });
        Ok(Zygote { child, stdin, stdout, stderr_tail: tail, dead: false })
    }

    fn kill(&mut self) {
        self.dead = true;
        unsafe {
            libc::kill(-(self.child.id() as i32), libc::SIGKILL);
        }
        let _ = self.child.kill();
        let _ = self.child.wait();
    }

    fn read_exact_deadline(&mut self, buf: &mut [u8], deadline: Instant) -> Result<(), &'static str> {
        use std::os::unix::io::AsRawFd;
        let fd = self.stdout.as_raw_fd();
        let mut off = 0;
        while off < buf.len() {
            let now = Instant::now();
            if now >= deadline {
                return Err("timeout");
            }
            let ms = (deadline - now).as_millis().min(1000) as i32;
            let mut pfd = libc::pollfd { fd, events: libc::POLLIN, revents: 0 };
            let r = unsafe { libc::poll(&mut pfd, 1, ms.max(1)) };
            if r == 0 {
                continue;
            }
            if r < 0 {
                if std::io::Error::last_os_error().kind() == std::io::ErrorKind::Interrupted {
                    continue;
                }
                return Err("poll");
            }
            let n = unsafe { libc::read(fd, buf[off..].as_mut_ptr().cast(), buf.len() - off) };
            if n == 0 {
                return Err("eof");
            }
            if n < 0 {
                if std::io::Error::last_os_error().kind() == std::io::ErrorKind::Interrupted {
                    continue;
                }
                return Err("read");
            }
            off += n as usize;
        }
        Ok(())
    }

    fn take_stderr_tail(&self) -> String {
        // give the collector thread a moment to drain what the dying child wrote
        std::thread::sleep(Duration::from_millis(5));
        let mut t = self.stderr_tail.lock().unwrap();
        let s = String::from_utf8_lossy(&t).to_string();
        t.clear();
        let lines: Vec<&str> = s.lines().rev().take(12).collect();
        lines.into_iter().rev().collect::<Vec<_>>().join("\n")
    }

    pub fn run(&mut self, spec: &SessionSpec, timeout: Duration) -> Result<SessionResult, WorkerError> {
        let json = serde_json::to_vec(spec).expect("serialise spec");
        let mut frame = Vec::with_capacity(json.len() + 4);
        frame.extend_from_slice(&(json.len() as u32).to_le_bytes());
        frame.extend_from_slice(&json);
        if self.stdin.write_all(&frame).and_then(|_| self.stdin.flush()).is_err() {
            self.kill();
            return Err(WorkerError::Died(format!("zygote pipe closed; stderr: {}", self.take_stderr_tail())));
        }
        let deadline = Instant::now() + timeout;
        let mut result: Option<Vec<u8>> = None;
        loop {
            let mut tag = [0u8; 1];
            if let Err(e) = self.read_exact_deadline(&mut tag, deadline) {
                self.kill();
                return if e == "timeout" { Err(WorkerError::Hung(format!("no result after {timeout:?}"))) } else { Err(WorkerError::Died(format!("zygote protocol ({e}); stderr: {}", self.take_stderr_tail()))) };
            }
            match tag[0] {
                b'R' => {
                    let mut len = [0u8; 4];
                    let mut ok = self.read_exact_deadline(&mut len, deadline).is_ok();
                    let mut buf = vec![];
                    if ok {
                        buf = vec![0u8; u32::from_le_bytes(len) as usize];
                        ok = self.read_exact_deadline(&mut buf, deadline).is_ok();
                    }
                    if !ok {
                        self.kill();
                        return Err(WorkerError::Garbled("truncated result frame".into()));
                    }
                    result = Some(buf);
                }
                b'S' => {
                    let mut code = [0u8; 4];
                    if self.read_exact_deadline(&mut code, deadline).is_err() {
                        self.kill();
                        return Err(WorkerError::Garbled("truncated status frame".into()));
                    }
                    let code = i32::from_le_bytes(code);
                    let tail = self.take_stderr_tail();
                    return match (code, result) {
                        (0, Some(buf)) => serde_json::from_slice::<SessionResult>(&buf).map_err(|e| WorkerError::Garbled(format!("{e}"))),
                        (0, None) => Err(WorkerError::Garbled("child exited 0 without a result".into())),
                        (c, _) if c >= 1000 => Err(WorkerError::Died(format!("signal: {} ; stderr: {tail}", c - 1000))),
                        (c, _) => Err(WorkerError::Died(format!("exit status: {c}; stderr: {tail}"))),
                    };
                }
                _ => {
                    self.kill();
                    return Err(WorkerError::Garbled("unexpected byte on the zygote pipe".into()));
                }
            }
        }
    }
}

impl Drop for Zygote {
    fn drop(&mut self) {
        if !self.dead {
            self.kill();
        }
    }
}

pub fn use_zygote() -> bool {
    std::env::var_os("VRL_SIM_NO_ZYGOTE").is_none()
}

/// Run all sessions, `par` at a time. `on_done(index, result)` is called from worker threads in completion
/// order; results are also returned in input order.
pub fn run_all<F>(specs: &[SessionSpec], par: usize, timeout: Duration, on_done: F) -> Vec<Result<SessionResult, WorkerError>>
where
    F: Fn(usize, &Result<SessionResult, WorkerError>) + Sync,
{
    let next = AtomicUsize::new(0);
    let results: Mutex<Vec<Option<Result<SessionResult, WorkerError>>>> = Mutex::new((0..specs.len()).map(|_| None).collect());
    std::thread::scope(|s| {
        for _ in 0..par.max(1).min(specs.len().max(1)) {
            s.spawn(|| {
                let mut zygote: Option<Zygote> = None;
                loop {
                    let i = next.fetch_add(1, Ordering::SeqCst);
                    if i >= specs.len() {
                        break;
                    }
                    let r = if use_zygote() {
                        if zygote.as_ref().is_none_or(|z| z.dead) {
                            zygote = Zygote::spawn().ok();
                        }
                        match zygote.as_mut() {
                            Some(z) => z.run(&specs[i], timeout),
                            None => run_one(&specs[i], timeout),
                        }
                    } else {
                        run_one(&specs[i], timeout)
                    };
                    on_done(i, &r);
                    results.lock().unwrap()[i] = Some(r);
                }
            });
        }
    });
    results.into_inner().unwrap().into_iter().map(|r| r.unwrap()).collect()
}
