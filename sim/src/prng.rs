//! In-tree PRNG (SplitMix64 seeding a xoshiro256**), so that the byte stream is
//! stable across toolchains and crates. Everything the simulator decides is
//! drawn from one of these, seeded from VERIF_SEED.

#[derive(Clone, Debug)]
pub struct Rng {
    s: [u64; 4],
}

pub fn splitmix(x: &mut u64) -> u64 {
    *x = x.wrapping_add(0x9E37_79B9_7F4A_7C15);
    let mut z = *x;
    z = (z ^ (z >> 30)).wrapping_mul(0xBF58_476D_1CE4_E5B9);
    z = (z ^ (z >> 27)).wrapping_mul(0x94D0_49BB_1331_11EB);
    z ^ (z >> 31)
}

/// Mix two integers into one seed (used to derive sub-streams: seed.i).
pub fn mix(a: u64, b: u64) -> u64 {
    let mut x = a ^ b.wrapping_mul(0xD6E8_FEB8_6659_FD93).rotate_left(23);
    splitmix(&mut x)
}

impl Rng {
    pub fn new(seed: u64) -> Self {
        let mut x = seed;
        let s = [splitmix(&mut x), splitmix(&mut x), splitmix(&mut x), splitmix(&mut x)];
        Rng { s }
    }

    pub fn derive(&self, tag: u64) -> Rng {
        Rng::new(mix(self.s[0] ^ self.s[2], tag))
    }

    pub fn next_u64(&mut self) -> u64 {
        let result = self.s[1].wrapping_mul(5).rotate_left(7).wrapping_mul(9);
        let t = self.s[1] << 17;
        self.s[2] ^= self.s[0];
        self.s[3] ^= self.s[1];
        self.s[1] ^= self.s[2];
        self.s[0] ^= self.s[3];
        self.s[2] ^= t;
        self.s[3] = self.s[3].rotate_left(45);
        result
    }

    /// Uniform in 0..n (n > 0).
    pub fn below(&mut self, n: usize) -> usize {
        debug_assert!(n > 0);
        ((self.next_u64() >> 11) as u128 * n as u128 >> 53) as usize
    }

    pub fn range(&mut self, lo: usize, hi_incl: usize) -> usize {
        lo + self.below(hi_incl - lo + 1)
    }

    pub fn chance(&mut self, p: f64) -> bool {
        ((self.next_u64() >> 11) as f64) < p * (1u64 << 53) as f64
    }

    pub fn pick<'a, T>(&mut self, xs: &'a [T]) -> &'a T {
        &xs[self.below(xs.len())]
    }

    pub fn shuffle<T>(&mut self, xs: &mut [T]) {
        for i in (1..xs.len()).rev() {
            let j = self.below(i + 1);
            xs.swap(i, j);
        }
    }

    /// Weighted choice; weights need not be normalised. Returns an index.
    pub fn weighted(&mut self, ws: &[u32]) -> usize {
        let total: u64 = ws.iter().map(|w| *w as u64).sum();
        if total == 0 {
            return self.below(ws.len());
        }
        let mut r = self.next_u64() % total;
        for (i, w) in ws.iter().enumerate() {
            if r < *w as u64 {
                return i;
            }
            r -= *w as u64;
        }
        ws.len() - 1
    }
}

/// FNV-1a 64, used for digests in logs and evidence (never for decisions).
pub fn fnv(bytes: &[u8]) -> u64 {
    let mut h: u64 = 0xcbf2_9ce4_8422_2325;
    for b in bytes {
        h ^= *b as u64;
        h = h.wrapping_mul(0x0000_0100_0000_01B3);
    }
    h
}

pub fn fnv_add(h: u64, bytes: &[u8]) -> u64 {
    let mut h = h;
    for b in bytes {
        h ^= *b as u64;
        h = h.wrapping_mul(0x0000_0100_0000_01B3);
    }
    h
}
