#!/bin/bash
# Re-runs the quick check of every seeded change in /verif/seeded/*/ (patch.diff + meta.json) against /repo and
# prints one line per change. Each change is applied, checked and undone in turn (tools/try_patch.sh).
DIR="$(cd "$(dirname "${BASH_SOURCE[0]}")/.." && pwd)"
for d in "$DIR"/seeded/*/; do
  [ -f "$d/meta.json" ] || continue
  prop=$(python3 -c "import json,sys; print(json.load(open('$d/meta.json'))['property'])")
  id=$(basename "$d")
  cp "$d/patch.diff" "$DIR/run/$id.diff"
  echo "$id: $("$DIR/tools/try_patch.sh" "$DIR/run/$id.diff" "$prop" 2>&1 | tail -1)"
done
