#!/bin/bash
# usage: tools/try_patch.sh <patch.diff> <Cxx> [<Cxx> ...]
# Applies a seeded change to /repo's working tree, runs the named quick checks against it, and undoes it
# straight afterwards (git -C "$REPO" checkout -- .). Prints one line per check: <Cxx> exit=<n> <first VIOLATION line>.
set -u
PATCH="$(readlink -f "$1")"; shift
DIR="$(cd "$(dirname "${BASH_SOURCE[0]}")/.." && pwd)"
REPO="${TRY_REPO:-/repo}"
if [ -n "$(git -C "$REPO" status --porcelain --untracked-files=no)" ]; then echo "refusing: $REPO has uncommitted changes" >&2; exit 2; fi
git -C "$REPO" apply --check "$PATCH" || { echo "patch does not apply" >&2; exit 2; }
git -C "$REPO" apply "$PATCH"
trap 'git -C "$REPO" checkout -- . ; git -C "$REPO" clean -fdq -- src lib 2>/dev/null' EXIT
for c in "$@"; do
  out="$DIR/run/try_$(basename "$PATCH" .diff)_$c.log"
  mkdir -p "$DIR/run"
  start=$(date +%s)
  VERIF_REPO="$REPO" VERIF_SEED="${VERIF_SEED:-1}" "$DIR/check" check "$c" --tier "${TIER:-quick}" >"$out" 2>&1
  rc=$?
  echo "$c exit=$rc wall=$(( $(date +%s) - start ))s $(grep -m1 '^VIOLATION' "$out") $(grep -c '^VIOLATION' "$out") violation line(s); log $out"
done
