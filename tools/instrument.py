#!/usr/bin/env python3
"""Build-time instrumentation pass: make a copy of /repo in which the VRL sources use the
scheduler-aware stand-ins of `vrl::verif::sync` instead of `std::sync::{Mutex, RwLock, atomic::*}`.

    instrument.py <repo> <dest>

The simulator crate depends on <dest> (package `vrl`, feature `verif-hooks`). The pass is purely
textual and conservative: it rewrites `use` declarations (including nested groups) and inline paths
that name the shimmed items, and nothing else. Every operation on such a primitive then is a yield
point of the simulator, so a logical race between two statements of one function body (check on an
atomic, then act under a lock, ...) is reachable by the seeded scheduler. Files are only written
when their content changes, so that cargo's incremental build stays warm.
"""
import os
import re
import shutil
import subprocess
import sys

SHIMMED = {"Mutex", "RwLock", "atomic"}
SHIM = "crate::verif::sync"
SKIP_DIRS = {"target", ".git"}

TOKEN = re.compile(r"\s*(::|[{},*;]|\bas\b|[A-Za-z_][A-Za-z0-9_]*|r#[A-Za-z_][A-Za-z0-9_]*)")


def parse_use_tree(text):
    """Parse the body of a use declaration (without `use` and `;`) into a list of
    (path_segments, alias_or_None). Returns None if the syntax is not understood."""
    toks = []
    pos = 0
    while pos < len(text):
        m = TOKEN.match(text, pos)
        if not m:
            if text[pos:].strip() == "":
                break
            return None
        toks.append(m.group(1))
        pos = m.end()
    out = []

    def tree(i, prefix):
        # returns new index
        if i < len(toks) and toks[i] == "::":  # leading `::`
            i += 1
            prefix = prefix + [""]
        path = list(prefix)
        while i < len(toks):
            t = toks[i]
            if t == "{":
                i += 1
                while True:
                    if i < len(toks) and toks[i] == "}":
                        i += 1
                        break
                    i = tree(i, path)
                    if i is None:
                        return None
                    if i < len(toks) and toks[i] == ",":
                        i += 1
                        continue
                    if i < len(toks) and toks[i] == "}":
                        i += 1
                        break
                    return None
                return i
            if t == "*":
                out.append((path + ["*"], None))
                return i + 1
            if re.match(r"^(r#)?[A-Za-z_]", t) and t != "as":
                path.append(t)
                i += 1
                if i < len(toks) and toks[i] == "::":
                    i += 1
                    continue
                alias = None
                if i < len(toks) and toks[i] == "as":
                    if i + 1 >= len(toks):
                        return None
                    alias = toks[i + 1]
                    i += 2
                out.append((path, alias))
                return i
            return None
        return None

    end = tree(0, [])
    if end is None or end != len(toks):
        return None
    return out


USE_DECL = re.compile(r"(?m)^([ \t]*)((?:pub(?:\([^)]*\))?[ \t]+)?)use\s+([^;]*?);")
INLINE = re.compile(r"(?<![A-Za-z0-9_:])(?:::)?std::sync::(Mutex|RwLock|atomic)\b")
# Arc's reference-count inspecting associated functions, however `Arc` was imported
ARC_FN = re.compile(r"(?<![A-Za-z0-9_])(?:(?:::)?std::sync::)?Arc::(strong_count|weak_count|get_mut|make_mut|try_unwrap|into_inner)\s*\(")


def redirect(path):
    """std::sync::<shimmed>[::...] -> crate::verif::sync::<shimmed>[::...]"""
    p = path[1:] if path and path[0] == "" else path
    if len(p) >= 3 and p[0] == "std" and p[1] == "sync" and p[2] in SHIMMED:
        return SHIM.split("::") + p[2:]
    if len(p) >= 3 and p[0] == "std" and p[1] == "sync" and p[2] == "self":
        return path
    return path


def rewrite_use(m):
    indent, vis, body = m.group(1), m.group(2), m.group(3)
    if "sync" not in body or not any(s in body for s in SHIMMED):
        return m.group(0)
    leaves = parse_use_tree(body)
    if leaves is None:
        return m.group(0)
    new = [(redirect(p), a) for (p, a) in leaves]
    if [p for p, _ in new] == [p for p, _ in leaves]:
        return m.group(0)
    items = []
    for p, a in new:
        # `a::b::self` -> `a::b`
        if p and p[-1] == "self":
            p = p[:-1]
        s = "::".join(p)
        if a:
            s += " as " + a
        items.append(s)
    # keep the number of lines of the original declaration (diagnostics, panic locations)
    pad = "\n" * m.group(0).count("\n")
    return f"{indent}{vis}use {{{', '.join(items)}}};{pad}"


def rewrite_source(text):
    text = USE_DECL.sub(rewrite_use, text)
    text = INLINE.sub(lambda m: SHIM + "::" + m.group(1), text)
    text = ARC_FN.sub(lambda m: SHIM + "::arc::" + m.group(1) + "(", text)
    return text


def write_if_changed(path, data: bytes):
    try:
        with open(path, "rb") as f:
            if f.read() == data:
                return False
    except FileNotFoundError:
        pass
    os.makedirs(os.path.dirname(path), exist_ok=True)
    with open(path, "wb") as f:
        f.write(data)
    return True


def main():
    args = [a for a in sys.argv[1:] if a != "--plain"]
    plain = "--plain" in sys.argv[1:]
    repo, dest = os.path.abspath(args[0]), os.path.abspath(args[1])
    keep = set()
    changed = rewritten = 0
    for root, dirs, files in os.walk(repo):
        rel_root = os.path.relpath(root, repo)
        dirs[:] = [d for d in dirs if not (rel_root == "." and d in SKIP_DIRS) and d != ".git"]
        for name in files:
            src = os.path.join(root, name)
            rel = os.path.normpath(os.path.join(rel_root, name))
            keep.add(rel)
            if os.path.islink(src):
                continue
            with open(src, "rb") as f:
                data = f.read()
            if not plain and rel.startswith("src" + os.sep) and rel.endswith(".rs") and rel != os.path.join("src", "verif.rs"):
                try:
                    text = data.decode("utf-8")
                    new = rewrite_source(text)
                    if new != text:
                        rewritten += 1
                    data = new.encode("utf-8")
                except UnicodeDecodeError:
                    pass
            if write_if_changed(os.path.join(dest, rel), data):
                changed += 1
    # remove files that disappeared from the repository
    for root, dirs, files in os.walk(dest):
        rel_root = os.path.relpath(root, dest)
        if rel_root == "." and "target" in dirs:
            dirs.remove("target")
        for name in files:
            rel = os.path.normpath(os.path.join(rel_root, name))
            if rel not in keep and rel != "Cargo.lock":
                os.remove(os.path.join(root, name))
    print(f"instrument{' (plain copy)' if plain else ''}: {rewritten} source files use shimmed sync primitives; {changed} files updated in {dest}")


if __name__ == "__main__":
    if len(sys.argv) == 2 and sys.argv[1] == "--selftest":
        samples = [
            "use std::sync::{Arc, LazyLock, RwLock};",
            "use std::{\n    borrow::Cow,\n    sync::{\n        Arc, LazyLock, Mutex,\n        atomic::{AtomicU64, Ordering},\n    },\n};",
            "use std::sync::atomic::{AtomicUsize, Ordering};",
            "pub(crate) use std::sync::Mutex as M;",
            "    static X: std::sync::Mutex<u8> = std::sync::Mutex::new(0);",
            "use std::sync::Arc;",
            "use std::sync::{self, Arc};",
            "if Arc::strong_count(&self.scratch) == 1 { let x = std::sync::Arc::make_mut(&mut a); }",
        ]
        for s in samples:
            print(repr(s), "->", repr(rewrite_source(s)))
        sys.exit(0)
    main()
