#!/bin/bash
# usage: verify_seeded.sh <worktree> <patch.diff> <demo.rs> <demo_test_name>
# Confirms in a scratch worktree: the patch applies, the unedited suite passes with it, the demo fails with it
# and passes without it. Prints a one-line summary.
set -u
WT="$1"; PATCH="$(readlink -f "$2")"; DEMO="$(readlink -f "$3")"; NAME="$4"
cd "$WT" || exit 2
git checkout -q -- . ; rm -f tests/demo_*.rs
git apply --check "$PATCH" || { echo "$NAME: patch does not apply"; exit 1; }
git apply "$PATCH"
suite=$(cargo nextest run --workspace --no-fail-fast --offline --test-threads 8 2>&1 | grep -E "Summary|error(\[|:)" | tail -2 | tr '\n' ' ')
cp "$DEMO" tests/$NAME.rs
with=$(cargo nextest run --offline --no-fail-fast --test $NAME 2>&1 | grep -E "Summary|error(\[|:)" | tail -1)
git checkout -q -- .
without=$(cargo nextest run --offline --no-fail-fast --test $NAME 2>&1 | grep -E "Summary|error(\[|:)" | tail -1)
rm -f tests/$NAME.rs
echo "$NAME | suite with patch: $suite | demo with patch: $with | demo without patch: $without"
